------------------------------ MODULE ProofsHist ------------------------------
(* C10 - honest proofs verify, also after encoding: CALL HISTORIES in one      *)
(* process and the IDENTITY of the objects the verifier is handed.             *)
(*                                                                             *)
(* ProofsMC.tla / ProofsGen.tla treat one prove -> verify -> wire -> verify    *)
(* run at a time.  The property quantifies over every session byte string and  *)
(* says "accepted under the same session, and still after being serialised and *)
(* parsed back": the verdict of a call may depend on the VALUES it is handed   *)
(* and on nothing else - not on what the process did before, not on which      *)
(* memory the caller keeps a session in, not on which object stands for a      *)
(* curve.  This module models exactly those three things.                      *)
(*                                                                             *)
(* 1. Session buffers.  A caller keeps sessions in byte buffers; a buffer b    *)
(*    points to an array of the heap (buf[b], 0 = none).  Before a call the    *)
(*    caller either allocates ("new": a fresh array) or rewrites the array it  *)
(*    already has IN PLACE ("inplace": only possible for the same length; this *)
(*    is `ctx[len(ssid)] = byte(j)` in a per-party loop).  The library is      *)
(*    handed the array (Go slices are references).                             *)
(* 2. Statement objects.  The verifier either uses statement objects of their  *)
(*    own ("own": the prover's objects when nothing was encoded, new objects   *)
(*    when the statement was restored from bytes) or ONE set of objects per    *)
(*    proof system that it overwrites in place with the statement at hand      *)
(*    ("slot": big.Int.Set, *point = *other).                                  *)
(* 3. Curve handles.  hd says how everything the verifier receives came into   *)
(*    being: "mem" the prover's objects; "same" parsed back with the very      *)
(*    handle object the prover used; "fresh" every object with a handle        *)
(*    obtained anew (tss.Edwards() / tss.S256()); "reg" statement restored     *)
(*    from JSON (ECPoint.UnmarshalJSON takes the registry's handle), proof     *)
(*    parsed with the handle of the verifier's own parameters.  On a curve     *)
(*    whose constructor returns a singleton (secp256k1) all handles are one    *)
(*    object ("single"); tss.Edwards() builds a new object per call ("multi"). *)
(*                                                                             *)
(* A history is a sequence of prove / verify calls on items (an item = a true  *)
(* statement with its proof, of proof system "kind" k; kinds[k] says whether   *)
(* the system takes a session (tg) and which curve class it runs on (cv)).     *)
(* Every verify step is an HONEST one: the buffer holds, at the time of the    *)
(* call, exactly the session the item was proved under.                        *)
(*                                                                             *)
(* The remote verifier.  Prover and verifier of one history share a process,   *)
(* hence hidden state: a prover whose challenge is derived under a stale       *)
(* session is consistently wrong together with its local verifier.  At the end *)
(* of a history every item is therefore also handed - wire parts, statement    *)
(* and session restored from bytes into objects of their own, every handle     *)
(* obtained anew - to a verifier in ANOTHER process (hidden state of its own,  *)
(* empty at first), in the order of the items (Remote).                        *)
(*                                                                             *)
(* Variants.  lib[v] is the hidden state of library variant v, all variants    *)
(* run side by side on the same history.  "code" is the code as read: no       *)
(* hidden state, a call depends on the current values only, so every verify    *)
(* step is predicted "acc" (CodeSound; this is what the harness demands of     *)
(* the real code at real size, step by step).  The others re-introduce one     *)
(* class of defect each, so that TLC demonstrably finds histories that expose  *)
(* it (non-vacuity of the generated catalogue, VariantsSeparated) and so that  *)
(* every generated history says which classes it would expose:                 *)
(*   "alias"   the tagged hash memoises (tag, digest) and stores the CALLER'S  *)
(*             slice as the key (compares contents: always equal to itself)    *)
(*   "ident"   ... memoises by the identity of the tag's array                 *)
(*   "prefix"  ... keeps a copy but compares only the first block              *)
(*   "stmt"    a value derived from the statement is cached by the identity of *)
(*             the statement object                                            *)
(*   "hcmp"    the verifier compares curve HANDLES (Go ==) of the statement    *)
(*             and of the parsed proof instead of curves                       *)
(* The harness emulates each variant around the REAL prover / verifier with    *)
(* real Go slices and pointers and the outcomes must agree with out[v] step by *)
(* step: that binds the memory model to Go's semantics (self test).            *)
(*                                                                             *)
(* Named deviations: sessions are short sequences over {1, 2}; the harness     *)
(* widens every element to a block of W bytes (W = 1, 16, 33, 800), so <<1,1>> and *)
(* <<1,2>> are ssid||1 and ssid||2.  The prover works on its own statement       *)
(* objects (they replace what the "stmt" cache holds).  An in-place write of   *)
(* equal content is the buffer re-used as it is.                               *)

EXTENDS Naturals, Sequences, FiniteSets, TLC, Json

CONSTANTS
  NBufs,        \* session buffers 1..NBufs of the callers
  Sess,         \* session values
  NKinds,       \* kinds (proof systems) per history
  KindChoices,  \* admissible attributes of a kind: records [tg |-> BOOLEAN, cv |-> "single" | "multi"]
  Stms,         \* subset of {"own", "slot"}
  Hds,          \* subset of {"mem", "same", "fresh", "reg"}
  MaxOps,       \* length of the histories
  Variants,     \* "code" and the defect classes to run side by side
  TwoPhase,     \* choose the shape of the next call first, then its operands (keeps -simulate cheap and spreads it evenly over the shapes)
  EmitMode      \* "all": print every finished history; "directed": print the histories whose last step is their only exposing one; "none"

VARIABLES heap, buf, items, lib, hist, kinds, done, pend, rem

vars == <<heap, buf, items, lib, hist, kinds, done, pend, rem>>

Bufs == 1..NBufs
TagVariants == {"alias", "ident", "prefix"}
AllVariants == <<"code", "alias", "ident", "prefix", "stmt", "hcmp">>
ASSUME Variants \subseteq {AllVariants[i] : i \in 1..Len(AllVariants)} /\ "code" \in Variants

NoPend == [op |-> "none", how |-> "-", stm |-> "-", hd |-> "-"]
NoLib == [set |-> FALSE, arr |-> 0, key |-> <<>>, dig |-> <<>>, sset |-> FALSE, sobj |-> <<"none", 0>>, sitem |-> 0]

-----------------------------------------------------------------------------
(* the tagged hash of variant v, handed array a of heap h                     *)
TagHit(v, st, a, h) ==
  CASE v = "alias"  -> st.set /\ h[st.arr] = h[a]                    \* the stored key IS the caller's array
    [] v = "ident"  -> st.set /\ st.arr = a /\ Len(h[a]) > 0          \* (arrays of length 0 have no identity in Go)
    [] v = "prefix" -> st.set /\ Len(st.key) = Len(h[a]) /\ Len(h[a]) > 0 /\ st.key[1] = h[a][1]
    [] OTHER        -> FALSE
TagUsed(v, st, a, h) == IF TagHit(v, st, a, h) THEN st.dig ELSE h[a]    \* the session the challenge is really derived under
TagNext(v, st, a, h) ==
  IF v \in TagVariants /\ ~TagHit(v, st, a, h)
  THEN [st EXCEPT !.set = TRUE, !.arr = a, !.key = h[a], !.dig = h[a]] ELSE st

(* the statement cache of variant "stmt", handed object obj that holds the statement of item i *)
StmtHit(v, st, obj)     == v = "stmt" /\ st.sset /\ st.sobj = obj
StmtUsed(v, st, obj, i) == IF StmtHit(v, st, obj) THEN st.sitem ELSE i
StmtNext(v, st, obj, i) == IF v = "stmt" /\ ~StmtHit(v, st, obj) THEN [st EXCEPT !.sset = TRUE, !.sobj = obj, !.sitem = i] ELSE st

(* do statement and parsed proof carry the identical handle object? *)
SameHandleObj(cv, hd) == cv = "single" \/ hd \in {"mem", "same"}

-----------------------------------------------------------------------------
(* the caller prepares buffer b to hold session s *)
CanPrep(b, s, how) == how = "new" \/ (how = "inplace" /\ buf[b] # 0 /\ Len(heap[buf[b]]) = Len(s))
NH(b, s, how) == IF how = "new" THEN Append(heap, s) ELSE [heap EXCEPT ![buf[b]] = s]
NB(b, how)    == IF how = "new" THEN [buf EXCEPT ![b] = Len(heap) + 1] ELSE buf
MemOf(h, bb)  == [x \in Bufs |-> IF bb[x] = 0 THEN <<>> ELSE h[bb[x]]]
AllocOf(bb)   == [x \in Bufs |-> bb[x] # 0]

Init ==
  /\ heap = <<>> /\ buf = [b \in Bufs |-> 0] /\ items = <<>> /\ hist = <<>> /\ done = FALSE /\ pend = NoPend
  /\ rem = [st |-> [v \in Variants |-> NoLib], heap |-> <<>>, out |-> <<>>]
  /\ lib = [v \in Variants |-> NoLib]
  /\ kinds \in [1..NKinds -> KindChoices]

(* the remote verifier (another process) receives item it: a buffer of its own, never rewritten; *)
(* statement and proof restored from bytes, every handle obtained anew                          *)
RemoteStep(r, it) ==
  LET h  == Append(r.heap, it.sess)
      a  == Len(h)
      tg == kinds[it.kind].tg
      o  == [v \in Variants |->
               IF /\ (tg => TagUsed(v, r.st[v], a, h) = it.bound[v])
                  /\ (v = "hcmp" => kinds[it.kind].cv = "single")
               THEN "acc" ELSE "rej"]
  IN  [st |-> [v \in Variants |-> IF tg THEN TagNext(v, r.st[v], a, h) ELSE r.st[v]], heap |-> h, out |-> Append(r.out, o)]

Prove(k, b, s, how) ==
  /\ CanPrep(b, s, how)
  /\ LET h  == NH(b, s, how)
         bb == NB(b, how)
         a  == bb[b]
         tg == kinds[k].tg
         it == [kind |-> k, sess |-> s, bound |-> [v \in Variants |-> IF tg THEN TagUsed(v, lib[v], a, h) ELSE s]]
     IN /\ heap' = h /\ buf' = bb
        /\ items' = Append(items, it) /\ rem' = RemoteStep(rem, it)
        /\ lib' = [v \in Variants |-> StmtNext(v, IF tg THEN TagNext(v, lib[v], a, h) ELSE lib[v], <<"own", Len(items) + 1>>, Len(items) + 1)]
        /\ hist' = Append(hist, [op |-> "prove", item |-> Len(items) + 1, kind |-> k, buf |-> b, how |-> how, sess |-> s,
                                 stm |-> "own", hd |-> "mem", mem |-> MemOf(h, bb), alloc |-> AllocOf(bb),
                                 out |-> [v \in Variants |-> "acc"]])
  /\ UNCHANGED <<kinds, done>> /\ pend' = NoPend

(* an honest verification of item i: the session it was proved under is put into buffer b *)
Verify(i, b, how, stm, hd) ==
  LET it == items[i]
      k  == it.kind
      s  == it.sess
  IN
  /\ CanPrep(b, s, how)
  /\ LET h   == NH(b, s, how)
         bb  == NB(b, how)
         a   == bb[b]
         tg  == kinds[k].tg
         obj == IF stm = "slot" THEN <<"slot", k>> ELSE IF hd = "mem" THEN <<"own", i>> ELSE <<"call", Len(hist) + 1>>
         out == [v \in Variants |->
                   IF /\ (tg => TagUsed(v, lib[v], a, h) = it.bound[v])
                      /\ StmtUsed(v, lib[v], obj, i) = i
                      /\ (v = "hcmp" => SameHandleObj(kinds[k].cv, hd))
                   THEN "acc" ELSE "rej"]
     IN /\ heap' = h /\ buf' = bb
        /\ lib' = [v \in Variants |-> StmtNext(v, IF tg THEN TagNext(v, lib[v], a, h) ELSE lib[v], obj, i)]
        /\ hist' = Append(hist, [op |-> "verify", item |-> i, kind |-> k, buf |-> b, how |-> how, sess |-> s,
                                 stm |-> stm, hd |-> hd, mem |-> MemOf(h, bb), alloc |-> AllocOf(bb), out |-> out])
  /\ UNCHANGED <<items, kinds, done, rem>> /\ pend' = NoPend

Shapes == {[op |-> "prove", how |-> w, stm |-> "own", hd |-> "mem"] : w \in {"new", "inplace"}}
          \cup {[op |-> "verify", how |-> w, stm |-> st, hd |-> h] : w \in {"new", "inplace"}, st \in Stms, h \in Hds}
Possible(sh) ==
  IF sh.op = "prove" THEN \E b \in Bufs, s \in Sess : CanPrep(b, s, sh.how)
  ELSE \E i \in 1..Len(items), b \in Bufs : CanPrep(b, items[i].sess, sh.how)
Do(sh) ==
  \/ sh.op = "prove"  /\ \E k \in 1..NKinds, b \in Bufs, s \in Sess : Prove(k, b, s, sh.how)
  \/ sh.op = "verify" /\ \E i \in 1..Len(items), b \in Bufs : Verify(i, b, sh.how, sh.stm, sh.hd)

Direct == ~TwoPhase /\ ~done /\ Len(hist) < MaxOps /\ \E sh \in Shapes : Do(sh)
Pick ==
  /\ TwoPhase /\ ~done /\ Len(hist) < MaxOps /\ pend = NoPend
  /\ \E sh \in Shapes : Possible(sh) /\ pend' = sh
  /\ UNCHANGED <<heap, buf, items, lib, hist, kinds, done, rem>>
Apply == TwoPhase /\ pend # NoPend /\ Do(pend)
Step == Direct \/ Pick \/ Apply

(* a finished history takes one last step so that Emit fires once per history (TLC evaluates   *)
(* invariants on every candidate successor in -simulate mode)                                  *)
Finish == ~done /\ pend = NoPend /\ Len(hist) = MaxOps /\ done' = TRUE /\ UNCHANGED <<heap, buf, items, lib, hist, kinds, pend, rem>>

Next == Step \/ Finish
Spec == Init /\ [][Next]_vars

-----------------------------------------------------------------------------
(* the remote verifier's results, item by item (rem is advanced when the item comes into being: *)
(* the remote verifier's state depends on the items in their order and on nothing else)         *)
Remote == rem.out

(* the property at design level                                               *)
Rejected(v)       == {n \in 1..Len(hist) : hist[n].op = "verify" /\ hist[n].out[v] = "rej"}
RemoteRejected(v) == {i \in 1..Len(items) : Remote[i][v] = "rej"}
ExposedLocal  == {v \in Variants : Rejected(v) # {}}
ExposedRemote == {v \in Variants : RemoteRejected(v) # {}}
Exposed       == ExposedLocal \cup ExposedRemote

(* the code as read accepts every honest verification of every history, locally and remotely *)
CodeSound == Rejected("code") = {} /\ (done => RemoteRejected("code") = {})
(* every verify step is an honest one and the projection the harness compares is the heap's *)
Honest ==
  \A n \in 1..Len(hist) :
    /\ hist[n].mem[hist[n].buf] = hist[n].sess
    /\ hist[n].op = "verify" => hist[n].sess = items[hist[n].item].sess /\ hist[n].kind = items[hist[n].item].kind
TypeOK ==
  /\ Len(hist) <= MaxOps /\ Len(items) <= Len(hist)
  /\ \A b \in Bufs : buf[b] \in 0..Len(heap)

(* Non-vacuity (-workers 1): register 10+i is set when variant i was seen exposed. *)
VarIdx(v) == CHOOSE i \in 1..Len(AllVariants) : AllVariants[i] = v
ASSUME \A i \in 1..Len(AllVariants) : TLCSet(10 + i, FALSE)
Witness == /\ \A v \in ExposedLocal : TLCSet(10 + VarIdx(v), TRUE)
           /\ done => \A v \in ExposedRemote : TLCSet(10 + VarIdx(v), TRUE)
VariantsSeparated ==
  /\ PrintT(<<"VARIANTS", ToJson([i \in 1..Len(AllVariants) |-> [variant |-> AllVariants[i], exposed |-> TLCGet(10 + i)]])>>)
  /\ \A i \in 1..Len(AllVariants) : AllVariants[i] \in Variants => (TLCGet(10 + i) <=> AllVariants[i] # "code")

(* catalogue rows *)
Row == [kinds |-> kinds, steps |-> hist, remote |-> Remote, exposes |-> Exposed]
(* directed: the defect variants the history exposes do so at its last call alone, or not before the remote verifier *)
Directed ==
  /\ Len(hist) > 0
  /\ ExposedLocal # {} \/ ExposedRemote \ {"hcmp"} # {}
  /\ \A v \in ExposedLocal : Rejected(v) = {Len(hist)}
Emit ==
  CASE EmitMode = "all"      -> (done => PrintT(<<"HISTORY", ToJson(Row)>>))
    [] EmitMode = "directed" -> (done /\ Directed => PrintT(<<"HISTORY", ToJson(Row)>>))
    [] OTHER                 -> TRUE

-----------------------------------------------------------------------------
(* The handle catalogue: one prove -> wire -> verify run, every ROLE that      *)
(* carries a curve handle on the verifier's side with its own ORIGIN.          *)
(*   roles   sch: statement point X, the proof's commitment alpha;  schv: V, R,*)
(*           alpha;  pai: the public-key point;  fac / alice / bob: the curve  *)
(*           argument;  bobwc: the curve argument, the statement point X, the  *)
(*           proof's point U (it gets the handle given to the parser)          *)
(*   origins "prover" the handle object the prover worked with;  "param" one   *)
(*           handle the verifier obtained once and uses for whatever it parses;*)
(*           "fresh" a handle obtained anew for this object alone;  "reg" the  *)
(*           registry's (points: JSON round trip; curve: tss.GetCurveByName)   *)
(* distinct = the pairs of roles whose handles are different objects (none on  *)
(* a curve with a singleton handle).  The code as read must accept every row;  *)
(* a verifier that compares the handles of roles i and j rejects the rows that *)
(* list <<i, j>>.                                                              *)
HSystems == {"sch", "schv", "pai", "fac", "alice", "bob", "bobwc"}
HRoles(s) == CASE s = "sch" -> <<"X", "alpha">> [] s = "schv" -> <<"V", "R", "alpha">> [] s = "pai" -> <<"pub">>
               [] s = "bobwc" -> <<"ec", "X", "U">> [] OTHER -> <<"ec">>
Origins == {"prover", "param", "fresh", "reg"}
HCurves == {"secp256k1", "ed25519"}
Singleton(c) == c = "secp256k1"
SameObj(c, o1, o2) == Singleton(c) \/ (o1 = o2 /\ o1 # "fresh")
HRowsOf(s, c) ==
  { [sys |-> s, curve |-> c, roles |-> HRoles(s), asg |-> f, expect |-> "acc",
     distinct |-> {p \in (1..Len(HRoles(s))) \X (1..Len(HRoles(s))) : p[1] < p[2] /\ ~SameObj(c, f[p[1]], f[p[2]])}] :
       f \in [1..Len(HRoles(s)) -> Origins] }
HandleRows == UNION { HRowsOf(s, c) : s \in HSystems, c \in HCurves }
(* every pair of roles is separated by some row *)
ASSUME \A s \in HSystems : \A i \in 1..Len(HRoles(s)), j \in 1..Len(HRoles(s)) :
         i < j => \E r \in HandleRows : r.sys = s /\ <<i, j>> \in r.distinct
PrintHandles == \A r \in HandleRows : PrintT(<<"HROW", ToJson(r)>>)
(* evaluated once, when the exploration is over (Post needs -workers 1: the registers are per worker) *)
Post == PrintHandles /\ VariantsSeparated
PostHandles == (TLCGet(11) \in BOOLEAN) /\ PrintHandles   \* (the register keeps TLC from folding this into a constant)
=============================================================================
