------------------------------ MODULE ProofsMC ------------------------------
(* C10 at design level: COMPLETENESS of the nine proof systems of Proofs.tla.  *)
(*                                                                             *)
(* Every initial state is one honest run: a true statement, a witness from the *)
(* whole admissible toy range, the prover's random choices, and a challenge    *)
(* (oracle input).  For every such run TLC checks                              *)
(* (invariant Complete, the conjunction of)                                    *)
(*   EquationsHold : the honest transcript satisfies every verification        *)
(*                   equation, whatever the challenge                          *)
(*   OnlySlack     : the only guards an honest transcript can fail are the     *)
(*                   "slack" ones, and it fails them exactly in the stated gap *)
(*                   (each gap has probability about 1/q .. 1/q^2 of the       *)
(*                   prover's coins: negligible for a 256 bit q, frequent for  *)
(*                   the toy q - which is why the gap must be characterised    *)
(*                   exactly rather than ignored)                              *)
(*   VerdictIsGap  : Verify accepts iff the run is outside the gap; in the gap *)
(*                   it rejects or (identity not representable) panics, as     *)
(*                   stated                                                    *)
(*   WireKeeps     : serialising the parts (absolute value, big endian) and    *)
(*                   parsing them back does not change the verdict, except for *)
(*                   a negative v of the factor proof                          *)
(* The C10 scenario catalogue built on this model is ProofsGen.tla.            *)
EXTENDS Proofs

CONSTANTS Sys,      \* the systems to explore (subset of Systems)
          Wide      \* larger domains (thorough tier)

VARIABLE run
vars == <<run>>

Bits(K) == [1..K -> {0, 1}]

-----------------------------------------------------------------------------
(* honest domains *)
Qs(w) == IF w THEN {5, 7, 11} ELSE {5, 7}

Runs_sch(w) ==
  { [sys |-> "sch", par |-> [q |-> q, idrep |-> id], x |-> x, a |-> a, c |-> c] :
      q \in Qs(w), id \in BOOLEAN, x \in 0..10, a \in 1..10, c \in 0..10 }
(* x = 0: X is the identity, a point only where the identity has coordinates (edwards25519) *)
Dom_sch(w) == { r \in Runs_sch(w) : r.x < r.par.q /\ r.a < r.par.q /\ r.c < r.par.q /\ (r.x = 0 => r.par.idrep) }

QsV(w) == IF w THEN {5, 7} ELSE {5}
Dom_schv(w) ==
  { r \in { [sys |-> "schv", par |-> [q |-> q, idrep |-> FALSE], R |-> R, s |-> s, l |-> l, a |-> a, b |-> b, c |-> c] :
              q \in QsV(w), R \in 1..6, s \in 0..6, l \in 0..6, a \in (IF w THEN 1..6 ELSE {1, 2, 4}), b \in (IF w THEN 1..6 ELSE {1, 2, 4}),
              c \in 0..6 } :
      /\ r.R < r.par.q /\ r.s < r.par.q /\ r.l < r.par.q /\ r.a < r.par.q /\ r.b < r.par.q /\ r.c < r.par.q
      /\ (r.s * r.R + r.l) % r.par.q # 0        \* V is a point
      /\ (r.a * r.R + r.b) % r.par.q # 0 }      \* the prover's alpha is a point (else it panics: no proof)

(* Z*_77: the squares form a cyclic group of order 15 = 3*5 (77 = (2*3+1)(2*5+1)); 4 generates it *)
DlnK == 2
Dom_dln(w) ==
  { [sys |-> "dln", par |-> [K |-> DlnK], N |-> 77, pq |-> 15, h1 |-> h1, x |-> x, a |-> a, c |-> c] :
      h1 \in (IF w THEN {4, 25} ELSE {4}), x \in 1..14,
      a \in [1..DlnK -> (IF w THEN 0..14 ELSE {0, 1, 2, 7, 13, 14})], c \in Bits(DlnK) }

CoprimePhi(p, q) == GCD(p * q, (p - 1) * (q - 1)) = 1
Units(N) == {x \in 1..(N - 1) : GCD(x, N) = 1}
Dom_pai(w) ==
  UNION { { [sys |-> "pai", par |-> [K |-> 2, bound |-> 4], p |-> pq[1], q |-> pq[2], xs |-> xs] :
              xs \in [1..2 -> Units(pq[1] * pq[2])] } :
          pq \in (IF w THEN {<<5, 7>>, <<7, 11>>, <<11, 13>>} ELSE {<<5, 7>>}) }

(* Paillier-Blum moduli with gcd(N, phi) = 1: 33 = 3*11, 77 = 7*11, 69 = 3*23, 133 = 7*19 *)
NonRes(N) == {w \in 1..(N - 1) : Jacobi(w, N) = -1}
Dom_mod(w) ==
  UNION { { [sys |-> "mod", par |-> [K |-> 1], p |-> pq[1], q |-> pq[2], W |-> W, Y |-> <<y>>] :
              W \in NonRes(pq[1] * pq[2]), y \in 0..(pq[1] * pq[2] - 1) } :
          pq \in (IF w THEN {<<3, 11>>, <<7, 11>>, <<3, 23>>, <<7, 19>>} ELSE {<<3, 11>>}) }
  \cup
  { [sys |-> "mod", par |-> [K |-> 2], p |-> 3, q |-> 11, W |-> W, Y |-> <<y1, y2>>] :
      W \in {5, 7}, y1 \in 0..32, y2 \in 0..32 }

(* ring-Pedersen parameters s = 4, t = 4^2 = 16 modulo NC = 77; toy curve order q = 3 *)
FacSt(p, qq) == [N0 |-> p * qq, NC |-> 77, s |-> 4, t |-> 16]
Dom_fac(w) ==
  { [sys |-> "fac", par |-> [q |-> 3], p |-> pq[1], qq |-> pq[2], e |-> e,
     r |-> [alpha |-> al, beta |-> be, mu |-> 2, nu |-> nu, sigma |-> sg, rr |-> 1, x |-> 1, y |-> 2]] :
      pq \in {<<3, 5>>, <<5, 7>>}, e \in 0..2,
      al \in (IF w THEN 0..134 ELSE (0..3) \cup (66..80) \cup (118..134)),
      be \in {0, 1, 60, 74, 80, 120, 128, 134},
      nu \in (IF w THEN {1, 8} ELSE {8}), sg \in {0, 30} }
Keep_fac(r) == LET B == FacBound(r.par, FacSt(r.p, r.qq)) IN r.r.alpha < B /\ r.r.beta < B

(* Paillier N = 35, NT = 77 with h1 = 4, h2 = 16, q = 3: q^3 = 27 < N *)
MtaPar == [q |-> 3, N |-> 35, NT |-> 77, h1 |-> 4, h2 |-> 16]
Dom_alice(w) ==
  { [sys |-> "alice", par |-> MtaPar, m |-> m, r |-> r, e |-> e,
     rn |-> [alpha |-> al, beta |-> be, gamma |-> ga, rho |-> rho]] :
      m \in 0..2, r \in {1, 2}, e \in 0..2, al \in (IF w THEN 0..26 ELSE {0, 1, 2, 3, 13, 24, 25, 26}), be \in (IF w THEN {1, 3} ELSE {3}),
      ga \in (IF w THEN {0, 1, 2, 3, 14, 2078} ELSE {0, 1, 3, 2078}),
      rho \in (IF w THEN {0, 1, 7, 230} ELSE {0, 1, 230}) }

BobC1(w) == {Enc(MtaPar, 1, 2), Enc(MtaPar, 0, 1)}
Dom_bob(w) ==
  { [sys |-> "bob", par |-> MtaPar, c1 |-> c1, x |-> x, y |-> 5, r |-> r, e |-> e,
     rn |-> [alpha |-> al, rho |-> rho, sigma |-> 1, tau |-> 3, rhop |-> rp, beta |-> be, gamma |-> 1000]] :
      c1 \in (IF w THEN BobC1(w) ELSE {Enc(MtaPar, 1, 2)}), x \in 0..2, r \in {1, 2}, e \in 0..2,
      al \in (IF w THEN 0..26 ELSE {0, 1, 2, 3, 13, 24, 25, 26}),
      rho \in (IF w THEN {0, 1, 230} ELSE {0, 230}),
      rp \in (IF w THEN {0, 3, 2078} ELSE {0, 2078}), be \in (IF w THEN {1, 3} ELSE {3}) }
  \cup
  { [sys |-> "bob", par |-> MtaPar, c1 |-> Enc(MtaPar, 1, 2), x |-> x, y |-> y, r |-> 2, e |-> e,
     rn |-> [alpha |-> 13, rho |-> 7, sigma |-> sg, tau |-> tau, rhop |-> 9, beta |-> 3, gamma |-> ga]] :
      x \in {0, 2}, y \in {0, 1, 5, 242}, e \in 0..2, sg \in {0, 1}, tau \in {0, 3, 2078},
      ga \in {0, 1, 2, 3, 1000, 2186} }
Dom_bobwc(w) ==
  { [r EXCEPT !.sys = "bobwc"] : r \in { d \in Dom_bob(w) : d.x # 0 /\ d.rn.alpha % 3 # 0 } }

Dom(s) == LET w == Wide IN
  CASE s = "sch" -> Dom_sch(w) [] s = "schv" -> Dom_schv(w) [] s = "dln" -> Dom_dln(w)
    [] s = "pai" -> Dom_pai(w) [] s = "mod" -> Dom_mod(w)
    [] s = "fac" -> {r \in Dom_fac(w) : Keep_fac(r)} [] s = "alice" -> Dom_alice(w)
    [] s = "bob" -> Dom_bob(w) [] s = "bobwc" -> Dom_bobwc(w)

Init == run \in UNION {Dom(s) : s \in Sys}
Next == UNCHANGED run
Spec == Init /\ [][Next]_vars

-----------------------------------------------------------------------------
(* statement / proof / challenge of a run *)
St(r) ==
  CASE r.sys = "sch"   -> [X |-> r.x]
    [] r.sys = "schv"  -> [V |-> (r.s * r.R + r.l) % r.par.q, R |-> r.R]
    [] r.sys = "dln"   -> [h1 |-> r.h1, h2 |-> Exp(r.h1, r.x, r.N), N |-> r.N]
    [] r.sys = "pai"   -> [N |-> r.p * r.q]
    [] r.sys = "mod"   -> [N |-> r.p * r.q]
    [] r.sys = "fac"   -> FacSt(r.p, r.qq)
    [] r.sys = "alice" -> [c |-> Enc(r.par, r.m, r.r)]
    [] r.sys = "bob"   -> [c1 |-> r.c1,
                           c2 |-> Mul(Exp(r.c1, r.x, N2(r.par)), Enc(r.par, r.y, r.r), N2(r.par))]
    [] r.sys = "bobwc" -> [c1 |-> r.c1,
                           c2 |-> Mul(Exp(r.c1, r.x, N2(r.par)), Enc(r.par, r.y, r.r), N2(r.par)),
                           X  |-> r.x % r.par.q]
Ch(r) ==
  CASE r.sys \in {"sch", "schv", "dln"} -> r.c
    [] r.sys = "pai" -> r.xs [] r.sys = "mod" -> r.Y
    [] OTHER -> r.e
Pf(r) ==
  CASE r.sys = "sch"   -> P_sch(r.par, r.x, r.a, r.c)
    [] r.sys = "schv"  -> P_schv(r.par, r.R, r.s, r.l, r.a, r.b, r.c)
    [] r.sys = "dln"   -> P_dln(r.par, St(r), r.x, r.pq, r.a, r.c)
    [] r.sys = "pai"   -> P_pai(r.par, St(r), (r.p - 1) * (r.q - 1), r.xs)
    [] r.sys = "mod"   -> P_mod(r.par, St(r), r.p, r.q, r.W, r.Y)
    [] r.sys = "fac"   -> P_fac(r.par, St(r), r.p, r.qq, r.r, r.e)
    [] r.sys = "alice" -> P_alice(r.par, r.m, r.r, r.rn, r.e)
    [] r.sys = "bob"   -> [k \in (DOMAIN P_bob(r.par, St(r), r.x, r.y, r.r, r.rn, r.e)) \ {"U"} |->
                             P_bob(r.par, St(r), r.x, r.y, r.r, r.rn, r.e)[k]]
    [] r.sys = "bobwc" -> P_bob(r.par, St(r), r.x, r.y, r.r, r.rn, r.e)

(* the guards an honest transcript may fail *)
Slack(s) ==
  CASE s = "sch"   -> {"t_nonzero"}
    [] s = "schv"  -> {"t_nonzero", "u_nonzero"}
    [] s = "dln"   -> {"h1_ne_h2", "t_range", "alpha_range"}
    [] s = "pai"   -> {}
    [] s = "mod"   -> {"X_range", "Z_range"}
    [] s = "fac"   -> {"z1_range", "z2_range"}
    [] s = "alice" -> {"s1_ge_q", "s2_ge_q", "s_ne_1", "z_ne_1", "s1_ne_s2", "s1_le_q3"}
    [] s = "bob"   -> {"s1_ge_q", "s2_ge_q", "t1_ge_q", "t2_ge_q", "s1_le_q3", "t1_le_q7"}
    [] s = "bobwc" -> {"s1_ge_q", "s2_ge_q", "t1_ge_q", "t2_ge_q", "s1_le_q3", "t1_le_q7", "s1_modq_nz"}

(* the gap, written in terms of the witness, the prover's coins and the challenge:  *)
(* the set of slack guards that fail                                               *)
GapSet(r) ==
  LET q == IF "q" \in DOMAIN r.par THEN r.par.q ELSE 0 IN
  CASE r.sys = "sch"  -> {g \in {"t_nonzero"} : (r.a + r.c * r.x) % q = 0}
    [] r.sys = "schv" -> {g \in {"t_nonzero"} : (r.a + r.c * r.s) % q = 0}
                          \cup {g \in {"u_nonzero"} : (r.b + r.c * r.l) % q = 0}
    [] r.sys = "dln"  -> {g \in {"h1_ne_h2"} : r.x % r.pq = 1}
                          \cup {g \in {"t_range"} : \E i \in 1..r.par.K : (r.a[i] + r.c[i] * r.x) % r.pq < 2}
                          \cup {g \in {"alpha_range"} : \E i \in 1..r.par.K : r.a[i] % r.pq = 0}
    [] r.sys = "pai"  -> {}
    [] r.sys = "mod"  -> {g \in {"X_range", "Z_range"} : \E i \in 1..r.par.K : GCD(r.Y[i], r.p * r.q) # 1}
    [] r.sys = "fac"  -> LET B == FacBound(r.par, St(r)) IN
                          {g \in {"z1_range"} : r.e * r.p + r.r.alpha >= B}
                          \cup {g \in {"z2_range"} : r.e * r.qq + r.r.beta >= B}
    [] r.sys = "alice" ->
         LET s1 == r.e * r.m + r.rn.alpha
             s2 == r.e * r.rn.rho + r.rn.gamma
         IN  {g \in {"s1_ge_q"} : s1 < q} \cup {g \in {"s2_ge_q"} : s2 < q}
             \cup {g \in {"s1_le_q3"} : s1 > Pow(q, 3)} \cup {g \in {"s1_ne_s2"} : s1 = s2}
             \cup {g \in {"s_ne_1"} : (Exp(r.r, r.e, r.par.N) * r.rn.beta) % r.par.N = 1}
             \cup {g \in {"z_ne_1"} : Mul(Exp(r.par.h1, r.m, r.par.NT), Exp(r.par.h2, r.rn.rho, r.par.NT), r.par.NT) = 1}
    [] r.sys \in {"bob", "bobwc"} ->
         LET s1 == r.e * r.x + r.rn.alpha
             s2 == r.e * r.rn.rho + r.rn.rhop
             t1 == r.e * r.y + r.rn.gamma
             t2 == r.e * r.rn.sigma + r.rn.tau
         IN  {g \in {"s1_ge_q"} : s1 < q} \cup {g \in {"s2_ge_q"} : s2 < q}
             \cup {g \in {"t1_ge_q"} : t1 < q} \cup {g \in {"t2_ge_q"} : t2 < q}
             \cup {g \in {"s1_le_q3"} : s1 > Pow(q, 3)} \cup {g \in {"t1_le_q7"} : t1 > Pow(q, 7)}
             \cup {g \in {"s1_modq_nz"} : r.sys = "bobwc" /\ s1 % q = 0}

(* in the gap of a challenge that is 0 the verifier multiplies a point by 0 *)
PanicGap(r) ==
  CASE r.sys \in {"sch", "schv"} -> r.c = 0 /\ ~r.par.idrep
    [] r.sys = "bobwc" -> r.e = 0
    [] OTHER -> FALSE
(* schv: alpha + c*V is the identity (then so is t*R + u*G): Alpha.Add fails *)
RejGap(r) == r.sys = "schv" /\ (r.a * r.R + r.b + r.c * (r.s * r.R + r.l)) % r.par.q = 0

-----------------------------------------------------------------------------
(* the invariants *)
(* mod: for a challenge that is no unit modulo N the prover finds no (a, b) and leaves the element nil: *)
(* it has produced nothing that could be sent (the verifier refuses nil parts)                          *)
Produced(r) == r.sys = "mod" => \A i \in 1..r.par.K : GCD(r.Y[i], r.p * r.q) = 1

(* the four statements about one run r (st, pf, ch: its statement, proof, challenge) *)
EquationsHold(r, st, pf, ch) == Produced(r) => All(Eqs(r.sys, r.par, st, pf, ch))

OnlySlack(r, st, pf) ==
  LET F == FailSet(Guards(r.sys, r.par, st, pf))
  IN  F \subseteq Slack(r.sys) /\ F = GapSet(r)

VerdictIsGap(r, st, pf, ch) ==
  LET out == Outcome(r.sys, r.par, st, pf, ch) IN
  IF GapSet(r) # {} THEN out = "rej"
  ELSE IF PanicGap(r) THEN out = "panic"
  ELSE IF RejGap(r) THEN out = "rej"
  ELSE out = "acc"

(* what travels is |part|: only the factor proof has a part that can be negative *)
WireKeeps(r, st, pf, ch) ==
  /\ r.sys = "fac" =>
         /\ \A k \in DOMAIN pf \ {"v"} : pf[k] >= 0
         /\ pf.v >= 0 => Outcome("fac", r.par, st, WireFac(pf), ch) = Outcome("fac", r.par, st, pf, ch)
  /\ r.sys \in {"sch", "schv", "alice", "bob", "bobwc"} => \A k \in DOMAIN pf : pf[k] >= 0

(* one invariant, so that TLC computes the transcript of a run once *)
Complete ==
  LET st == St(run)
      pf == Pf(run)
      ch == Ch(run)
  IN  /\ EquationsHold(run, st, pf, ch)
      /\ OnlySlack(run, st, pf)
      /\ VerdictIsGap(run, st, pf, ch)
      /\ WireKeeps(run, st, pf, ch)

(* the toy parameters are what they are said to be *)
ASSUME /\ Exp(4, 15, 77) = 1 /\ Exp(4, 3, 77) # 1 /\ Exp(4, 5, 77) # 1      \* 4 has order 15 in Z*_77
       /\ Exp(25, 15, 77) = 1 /\ Exp(25, 3, 77) # 1 /\ Exp(25, 5, 77) # 1
       /\ GCD(35, 24) = 1 /\ GCD(77, 60) = 1 /\ GCD(143, 120) = 1
       /\ Jacobi(5, 33) = -1 /\ Jacobi(7, 33) = -1
       /\ Inv(3, 7) = 5 /\ Inv(2, 4) = Und /\ Exp(2, -1, 7) = 4 /\ Exp(7, -1, 77) = Und
       /\ Isqrt(15) = 3 /\ Isqrt(35) = 5 /\ Isqrt(36) = 6 /\ IsPrime(7) /\ ~IsPrime(77) /\ ~IsPrime(1)
       /\ (-3) % 7 = 4
=============================================================================
