---------------------------- MODULE Proofs_Trace ----------------------------
(* Binding of Proofs.tla to the code (C10 / C11).                              *)
(*                                                                             *)
(* The harness writes one ndjson line per TOY-SIZED transcript:                *)
(*   sys, par, st, pf, ch : as in Proofs.tla (ch is the Fiat-Shamir challenge  *)
(*                          of that transcript, computed by the harness's      *)
(*                          transcription of the verifier; where the real      *)
(*                          verifier ran, the harness has made sure that it    *)
(*                          derived the same one - see c10/c11 notes)          *)
(*   vec : the value of every guard and every equation as evaluated by the     *)
(*         harness's big-integer transcription of the verifier (the "twin",    *)
(*         harness/props/proofs_common.go), the same code that measures        *)
(*         vacuity on the real-size transcripts                                *)
(*   out : what the REAL Verify of the library did on that transcript          *)
(*         ("acc" | "rej" | "panic"), or "na" where the real code cannot run   *)
(*         at toy size (the Paillier key proof needs a modulus above 2^250)    *)
(* A line is explained iff TLC's evaluation of Guards / Eqs equals vec, name   *)
(* by name, and Outcome equals out.  Lines are independent; l walks the file.  *)
EXTENDS Proofs, IOUtils

TraceFile == IF "TRACE" \in DOMAIN IOEnv THEN IOEnv.TRACE ELSE "trace.ndjson"
TraceLog  == ndJsonDeserialize(TraceFile)

VARIABLE l      \* next line to consume
tvars == <<l>>

LineOK(e) ==
  LET G     == Guards(e.sys, e.par, e.st, e.pf)
      E     == Eqs(e.sys, e.par, e.st, e.pf, e.ch)
      mine  == G @@ E
      o     == Outcome(e.sys, e.par, e.st, e.pf, e.ch)
      bad   == {k \in DOMAIN mine : k \notin DOMAIN e.vec \/ e.vec[k] # mine[k]}
      vecOK == DOMAIN e.vec = DOMAIN mine /\ bad = {}
      outOK == e.out = "na" \/ e.out = o
  IN  (* IF, not a disjunction: TLC would try every disjunct of an action and print for each *)
      IF vecOK /\ outOK THEN TRUE
      ELSE /\ PrintT(<<"LINE_MISMATCH", e.id, e.sys, o, e.out>>)      \* line, system, outcome by the model, real outcome
           /\ PrintT(<<"LINE_MISMATCH_VEC", e.id, bad>>)              \* the guards / equations valued differently
           /\ FALSE

TraceInit == l = 1
TraceNext == l <= Len(TraceLog) /\ LineOK(TraceLog[l]) /\ l' = l + 1
TraceSpec == TraceInit /\ [][TraceNext]_tvars

(* high-water mark of consumed lines; needs -workers 1 *)
ASSUME TLCSet(1, 0)
HighWater == TLCSet(1, IF l > TLCGet(1) THEN l ELSE TLCGet(1))
TraceAccepted ==
  /\ PrintT(<<"TRACE_HW", TLCGet(1) - 1, Len(TraceLog)>>)
  /\ TLCGet(1) = Len(TraceLog) + 1
=============================================================================
