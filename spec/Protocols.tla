---------------------------- MODULE Protocols ----------------------------
(* The six protocol tables of bnb-chain/tss-lib, derived from                *)
(* {ecdsa,eddsa}/{keygen,signing,resharing}/round_*.go and messages.go.      *)
(* A table says, per round and role, which message types a party sends (and  *)
(* to whom), which it awaits (and from whom), and the quirks of the round's  *)
(* Update() implementation.  Engine.tla interprets a table.                  *)
EXTENDS Naturals, FiniteSets, Sequences

ProtoNames == {"eddsa-keygen", "ecdsa-keygen", "eddsa-signing", "ecdsa-signing",
               "eddsa-resharing", "ecdsa-resharing"}

IsResharing(proto) == proto \in {"eddsa-resharing", "ecdsa-resharing"}

(* point-to-point (secret bearing) message types; everything else is broadcast *)
(* (type names repeat across protocols: SignRound2Message is point-to-point in  *)
(* ECDSA signing and a broadcast in EdDSA signing)                              *)
P2PTypes(proto) ==
  CASE proto \in {"eddsa-keygen", "ecdsa-keygen"} -> {"KGRound2Message1"}
    [] proto = "ecdsa-signing"   -> {"SignRound1Message1", "SignRound2Message"}
    [] proto = "eddsa-signing"   -> {}
    [] proto = "eddsa-resharing" -> {"DGRound3Message1"}
    [] proto = "ecdsa-resharing" -> {"DGRound3Message1", "DGRound4Message1"}
KindOfP(proto, t) == IF t \in P2PTypes(proto) THEN "P" ELSE "B"

NumRounds(proto) ==
  CASE proto = "eddsa-keygen"    -> 3
    [] proto = "ecdsa-keygen"    -> 4
    [] proto = "eddsa-signing"   -> 4    \* 3 rounds + finalisation
    [] proto = "ecdsa-signing"   -> 10   \* 9 rounds + finalisation
    [] proto = "eddsa-resharing" -> 5
    [] proto = "ecdsa-resharing" -> 5

S(t, d) == [type |-> t, dest |-> d]
A(t, f) == [type |-> t, from |-> f]

SignRoundMsg(r) ==
  CASE r = 3 -> "SignRound3Message" [] r = 4 -> "SignRound4Message"
    [] r = 5 -> "SignRound5Message" [] r = 6 -> "SignRound6Message"
    [] r = 7 -> "SignRound7Message" [] r = 8 -> "SignRound8Message"
    [] r = 9 -> "SignRound9Message"

(* dest classes: "peers" (own single committee minus self), "old", "new",    *)
(* "newpeers" (new committee minus self), "oldnew" (everybody minus self)    *)
Sends(proto, r, role) ==
  CASE proto \in {"eddsa-keygen", "ecdsa-keygen"} ->
         CASE r = 1 -> {S("KGRound1Message", "peers")}
           [] r = 2 -> {S("KGRound2Message1", "peers"), S("KGRound2Message2", "peers")}
           [] r = 3 -> IF proto = "ecdsa-keygen" THEN {S("KGRound3Message", "peers")} ELSE {}
           [] OTHER -> {}
    [] proto = "eddsa-signing" ->
         CASE r = 1 -> {S("SignRound1Message", "peers")}
           [] r = 2 -> {S("SignRound2Message", "peers")}
           [] r = 3 -> {S("SignRound3Message", "peers")}
           [] OTHER -> {}
    [] proto = "ecdsa-signing" ->
         CASE r = 1 -> {S("SignRound1Message1", "peers"), S("SignRound1Message2", "peers")}
           [] r = 2 -> {S("SignRound2Message", "peers")}
           [] r \in 3..9 -> {S(SignRoundMsg(r), "peers")}
           [] OTHER -> {}
    [] proto = "eddsa-resharing" ->
         IF role = "old"
         THEN CASE r = 1 -> {S("DGRound1Message", "new")}
                [] r = 3 -> {S("DGRound3Message1", "new"), S("DGRound3Message2", "new")}
                [] OTHER -> {}
         ELSE CASE r = 2 -> {S("DGRound2Message", "old")}
                [] r = 4 -> {S("DGRound4Message", "oldnew")}
                [] OTHER -> {}
    [] proto = "ecdsa-resharing" ->
         IF role = "old"
         THEN CASE r = 1 -> {S("DGRound1Message", "new")}
                [] r = 3 -> {S("DGRound3Message1", "new"), S("DGRound3Message2", "new")}
                [] OTHER -> {}
         ELSE CASE r = 2 -> {S("DGRound2Message2", "old"), S("DGRound2Message1", "newpeers")}
                [] r = 4 -> {S("DGRound4Message1", "newpeers"), S("DGRound4Message2", "oldnew")}
                [] OTHER -> {}

(* from classes: "peers", "old", "new" (whole committee), "newpeers"          *)
Awaits(proto, r, role) ==
  CASE proto \in {"eddsa-keygen", "ecdsa-keygen"} ->
         CASE r = 1 -> {A("KGRound1Message", "peers")}
           [] r = 2 -> {A("KGRound2Message1", "peers"), A("KGRound2Message2", "peers")}
           [] r = 3 -> IF proto = "ecdsa-keygen" THEN {A("KGRound3Message", "peers")} ELSE {}
           [] OTHER -> {}
    [] proto = "eddsa-signing" ->
         CASE r = 1 -> {A("SignRound1Message", "peers")}
           [] r = 2 -> {A("SignRound2Message", "peers")}
           [] r = 3 -> {A("SignRound3Message", "peers")}
           [] OTHER -> {}
    [] proto = "ecdsa-signing" ->
         CASE r = 1 -> {A("SignRound1Message1", "peers"), A("SignRound1Message2", "peers")}
           [] r = 2 -> {A("SignRound2Message", "peers")}
           [] r \in 3..9 -> {A(SignRoundMsg(r), "peers")}
           [] OTHER -> {}
    [] proto = "eddsa-resharing" ->
         IF role = "old"
         THEN CASE r = 2 -> {A("DGRound2Message", "new")}
                [] r = 4 -> {A("DGRound4Message", "new")}
                [] OTHER -> {}
         ELSE CASE r = 1 -> {A("DGRound1Message", "old")}
                [] r = 3 -> {A("DGRound3Message1", "old"), A("DGRound3Message2", "old")}
                [] r = 4 -> {A("DGRound4Message", "newpeers")}
                [] OTHER -> {}
    [] proto = "ecdsa-resharing" ->
         IF role = "old"
         THEN CASE r = 2 -> {A("DGRound2Message2", "new")}
                [] r = 4 -> {A("DGRound4Message2", "new")}
                [] OTHER -> {}
         ELSE CASE r = 1 -> {A("DGRound1Message", "old")}
                [] r = 2 -> {A("DGRound2Message1", "newpeers")}
                [] r = 3 -> {A("DGRound3Message1", "old"), A("DGRound3Message2", "old")}
                [] r = 4 -> {A("DGRound4Message1", "newpeers"), A("DGRound4Message2", "newpeers")}
                [] OTHER -> {}

(* Rounds whose Update() returned at the first incomplete peer instead of     *)
(* scanning on (defects F-S1/F-R3/F-R4 of the pinned tree, repaired by        *)
(* "fix:" commits; kept as a switch so that TLC can show what they break).    *)
ShortCircuitRound(proto, r) ==
  \/ proto = "ecdsa-signing"   /\ r = 1
  \/ proto = "eddsa-resharing" /\ r = 3
  \/ proto = "ecdsa-resharing" /\ r \in {3, 4}

(* The protocol whose last round never marked its peers (defect F-E1).        *)
StuckLastRound(proto) == proto = "eddsa-keygen"

(* The round in which the content of a message type is verified (the round    *)
(* whose Start() reads it).  Used by the fault layer only.                     *)
VerifiedIn(proto, t) ==
  CASE proto = "eddsa-keygen"  -> 3
    [] proto = "ecdsa-keygen"  ->
         CASE t = "KGRound1Message" -> 2   \* dln proofs, moduli
           [] t = "KGRound3Message" -> 4   \* paillier proof
           [] OTHER -> 3
    [] proto = "eddsa-signing" ->
         CASE t = "SignRound1Message" -> 3 \* decommitment in round 3
           [] t = "SignRound2Message" -> 3
           [] OTHER -> 4
    [] proto = "ecdsa-signing" ->
         CASE t \in {"SignRound1Message1"} -> 2
           [] t = "SignRound2Message" -> 3
           [] t = "SignRound3Message" -> 4
           [] t \in {"SignRound1Message2", "SignRound4Message"} -> 5
           [] t \in {"SignRound5Message", "SignRound6Message"} -> 7
           [] t \in {"SignRound7Message", "SignRound8Message"} -> 9
           [] OTHER -> 10
    [] proto = "eddsa-resharing" -> 4
    [] proto = "ecdsa-resharing" ->
         CASE t = "DGRound4Message1" -> 5
           [] OTHER -> 4
=============================================================================
