---------------------------- MODULE ResharingData ----------------------------
(* Data-level specification of resharing (ecdsa/resharing round_1_old_step_1,  *)
(* round_3_old_step_2, round_4_new_step_2; eddsa/resharing has the same data   *)
(* flow).  ResharingMC.tla specifies WHEN shares are retired and key data is    *)
(* emitted; this module specifies WHAT the committees compute, over a toy      *)
(* group Z_Q (points as discrete logarithms, identity not representable):      *)
(*                                                                             *)
(*   old member i (one of the participating holders, NOld >= TOld+1 of them):  *)
(*     w_i = lambda_i * x_i   (Lagrange coefficient at 0 over the participants)*)
(*     deals a degree-TNew Feldman sharing of w_i to the new committee and     *)
(*     announces the group key y it knows                                      *)
(*   new member j:                                                             *)
(*     checks every opening against its commitment and every share against the *)
(*     opened commitments (first failing old member is named), then            *)
(*     x'_j = sum_i f_i(id'_j),  V_c = sum_i V_ic,  REQUIRES V_0 = y,          *)
(*     X'_k = sum_c V_c id'_k^c                                                *)
(*                                                                             *)
(* A transport fault (one share / one opened coefficient altered towards one   *)
(* recipient, a dealer whose commitments do not belong to its shares, or an    *)
(* old member that runs on a wrong secret x_i + 1) is part of the model, so    *)
(* TLC predicts which new members must refuse and whom they name.              *)
EXTENDS Zq, TLC

CONSTANTS NOld, TOld, OldIds,   \* participating old members 1..NOld, their share ids, old threshold
          NNew, TNew, NewIds,   \* new committee
          WithFaults

ASSUME Len(OldIds) = NOld /\ Len(NewIds) = NNew /\ NOld >= TOld + 1 /\ TNew >= 1 /\ TNew < NNew

Old  == 1..NOld
New  == 1..NNew
Coef == 1..(TNew + 1)
DealPoly == [2..(TNew + 1) -> ZqStar]     \* the random coefficients; the constant term is w_i

NoFault == [kind |-> "none", from |-> 0, to |-> 0, idx |-> 0, delta |-> 0]
Faults ==
  IF ~WithFaults THEN {NoFault} ELSE
  {NoFault}
  \cup { [kind |-> "share", from |-> ij[1], to |-> ij[2], idx |-> 0, delta |-> 1] : ij \in Old \X New }
  \cup { [kind |-> "open", from |-> ijc[1][1], to |-> ijc[1][2], idx |-> ijc[2], delta |-> 1] : ijc \in (Old \X New) \X Coef }
  \cup { [kind |-> "commit", from |-> ic[1], to |-> 0, idx |-> ic[2], delta |-> 1] : ic \in Old \X Coef }
  \cup { [kind |-> "secret", from |-> i, to |-> 0, idx |-> 0, delta |-> 1] : i \in Old }

VARIABLES
  keyPoly,   \* [1..TOld+1 -> Zq] : the polynomial of the existing sharing; y = keyPoly[1], x_i = Eval(keyPoly, OldIds[i])
  deal,      \* [Old -> DealPoly]
  fault,
  pc,        \* [New -> {"wait", "ok", "refuse", "degenerate"}]
  newX, newBigX, newY, culprits
rvars == <<keyPoly, deal, fault, pc, newX, newBigX, newY, culprits>>

-----------------------------------------------------------------------------
Y       == keyPoly[1]
OldX(i) == Eval(keyPoly, OldIds[i])
(* signing.PrepareForSigning over the participating old members *)
W(i)    == Mul(Lagrange(OldIds, i, 0), IF fault.kind = "secret" /\ fault.from = i THEN Add(OldX(i), fault.delta) ELSE OldX(i))
Poly(i) == [c \in Coef |-> IF c = 1 THEN W(i) ELSE deal[i][c]]

ShareSent(i, j) == Eval(Poly(i), NewIds[j])
ShareRecv(i, j) ==
  IF fault.kind = "share" /\ fault.from = i /\ fault.to = j THEN ShareSent(i, j) + fault.delta ELSE ShareSent(i, j)
Committed(i) ==
  [c \in Coef |-> IF fault.kind = "commit" /\ fault.from = i /\ fault.idx = c THEN Add(Poly(i)[c], fault.delta) ELSE Poly(i)[c]]
OpenRecv(i, j) ==
  [c \in Coef |-> IF fault.kind = "open" /\ fault.from = i /\ fault.to = j /\ fault.idx = c
                  THEN Add(Committed(i)[c], fault.delta) ELSE Committed(i)[c]]

Bad(i, j) ==
  \/ OpenRecv(i, j) # Committed(i)
  \/ \E c \in Coef : OpenRecv(i, j)[c] = 0
  \/ ShareRecv(i, j) % Q = 0
  \/ ShareRecv(i, j) % Q # Eval(OpenRecv(i, j), NewIds[j])
(* the code returns at the first old member whose values fail *)
FirstBad(j) == IF \E i \in Old : Bad(i, j) THEN {CHOOSE i \in Old : Bad(i, j) /\ \A k \in Old : Bad(k, j) => i <= k} ELSE {}

SumO(f) == SumSeq([i \in 1..NOld |-> f[i]])
Vc(j)   == [c \in Coef |-> SumO([i \in Old |-> OpenRecv(i, j)[c]])]
Xn(j)   == SumO([i \in Old |-> ShareRecv(i, j) % Q])
BigXn(j) == [k \in 1..NNew |-> Eval(Vc(j), NewIds[k])]

RECURSIVE PrefixZero(_, _, _)
PrefixZero(j, c, k) ==
  IF k = 0 THEN FALSE
  ELSE SumSeq([m \in 1..k |-> OpenRecv(m, j)[c]]) = 0 \/ PrefixZero(j, c, k - 1)
RECURSIVE EvalPrefixZero(_, _, _)
EvalPrefixZero(v, id, k) ==
  IF k = 0 THEN FALSE
  ELSE \/ SumSeq([m \in 1..k |-> Mul(v[m], Pow(id % Q, m - 1))]) = 0
       \/ Mul(v[k], Pow(id % Q, k - 1)) = 0
       \/ EvalPrefixZero(v, id, k - 1)
Degenerate(j) ==
  \/ \E c \in Coef : PrefixZero(j, c, NOld)
  \/ \E k \in 1..NNew : EvalPrefixZero(Vc(j), NewIds[k], TNew + 1)
  \/ Xn(j) = 0

-----------------------------------------------------------------------------
Init ==
  /\ keyPoly \in [1..(TOld + 1) -> ZqStar]
  /\ deal \in [Old -> DealPoly]
  /\ fault \in Faults
  /\ pc = [j \in New |-> "wait"]
  /\ newX = [j \in New |-> 0] /\ newY = [j \in New |-> 0]
  /\ newBigX = [j \in New |-> <<>>]
  /\ culprits = [j \in New |-> {}]

(* round 4 of new member j (rounds 1-3 only move the values above) *)
Round4(j) ==
  /\ pc[j] = "wait"
  /\ \A r \in New : r < j => pc[r] # "wait"            \* canonical order (the steps commute)
  /\ IF FirstBad(j) # {}
     THEN /\ pc' = [pc EXCEPT ![j] = "refuse"]
          /\ culprits' = [culprits EXCEPT ![j] = FirstBad(j)]
          /\ UNCHANGED <<newX, newBigX, newY>>
     ELSE IF Degenerate(j)
     THEN /\ pc' = [pc EXCEPT ![j] = "degenerate"]
          /\ UNCHANGED <<newX, newBigX, newY, culprits>>
     ELSE IF Vc(j)[1] # Y
     THEN /\ pc' = [pc EXCEPT ![j] = "refuse"]              \* "assertion failed: V_0 != y": nobody but itself is named
          /\ culprits' = [culprits EXCEPT ![j] = {}]
          /\ UNCHANGED <<newX, newBigX, newY>>
     ELSE /\ pc' = [pc EXCEPT ![j] = "ok"]
          /\ newX' = [newX EXCEPT ![j] = Xn(j)]
          /\ newBigX' = [newBigX EXCEPT ![j] = BigXn(j)]
          /\ newY' = [newY EXCEPT ![j] = Vc(j)[1]]
          /\ UNCHANGED culprits
  /\ UNCHANGED <<keyPoly, deal, fault>>

Next == \E j \in New : Round4(j)
Spec == Init /\ [][Next]_rvars

-----------------------------------------------------------------------------
OldOK == DistinctModQ(OldIds) /\ NonZeroModQ(OldIds)
NewOK == DistinctModQ(NewIds) /\ NonZeroModQ(NewIds)
Done(j) == pc[j] = "ok"
AllDone == \A j \in New : Done(j)
Honest == fault = NoFault
ZeroShareDealt == \E ij \in Old \X New : ShareSent(ij[1], ij[2]) = 0
ZeroSecretDealt == \E i \in Old : Poly(i)[1] = 0     \* an old share (or weighted share) that is 0 mod Q cannot be dealt at all
Regular == ~ZeroShareDealt /\ ~ZeroSecretDealt /\ OldOK /\ NewOK

TypeOK == pc \in [New -> {"wait", "ok", "refuse", "degenerate"}]

(* C04: the weighted old shares add up to the key - the basis of everything below *)
WeightsAddUp == (Honest /\ OldOK) => SumO([i \in Old |-> W(i)]) = Y
(* C04: the same group key, a consistent (TNew, NNew) sharing of it *)
KeyPreserved == \A j \in New : Done(j) => newY[j] = Y
SameView == \A j, k \in New : (Done(j) /\ Done(k)) => newBigX[j] = newBigX[k]
OwnShareMatches == \A j \in New : Done(j) => newX[j] = newBigX[j][j]
AnySubsetReconstructs ==
  (AllDone /\ NewOK) =>
     \A S \in SubSeqs(NNew, TNew + 1, 1) : Interp(Pick(NewIds, S), Pick([j \in 1..NNew |-> newX[j]], S), 0) = Y
HonestCompletes == (Honest /\ Regular) => \A j \in New : pc[j] # "refuse"
(* C04: a new member never accepts shares whose combination does not match the key it was told *)
NeverAcceptWrongKey == \A j \in New : Done(j) => Vc(j)[1] = Y
(* C05 at the data level *)
Victims ==
  IF fault.kind \in {"commit", "secret"} THEN New ELSE IF fault = NoFault THEN {} ELSE {fault.to}
NoSilentAccept == \A j \in Victims : ~Done(j)
BlameSound ==
  Regular => \A j \in New : pc[j] = "refuse" => (j \in Victims /\ culprits[j] \subseteq {fault.from})
BlameExact ==          \* whenever the altered value is covered by the commitment or the share check the dealer is named
  Regular => \A j \in New : (pc[j] = "refuse" /\ fault.kind \in {"share", "open", "commit"}) => culprits[j] = {fault.from}
=============================================================================
