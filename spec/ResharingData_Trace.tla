------------------------- MODULE ResharingData_Trace -------------------------
(* Trace validation of real ECDSA resharings run on a toy elliptic curve of    *)
(* order Q (old key material from a real key generation on the same curve).    *)
(* All points are projected to discrete logarithms by the harness.  One run =  *)
(* a Reset line (the polynomial of the existing sharing, interpolated from the *)
(* old members' shares; the random coefficients of the old members' dealings,  *)
(* read off their de-commitments; the fault the harness applied), one Deal     *)
(* line per participating old member (what it put on the wire - whose          *)
(* constant term must be the Lagrange-weighted old share the specification     *)
(* computes) and one R4 line per new member (how its round 4 ended).           *)
EXTENDS ResharingData, Json, IOUtils

TraceFile == IF "TRACE" \in DOMAIN IOEnv THEN IOEnv.TRACE ELSE "trace.ndjson"
TraceLog == ndJsonDeserialize(TraceFile)

VARIABLE l
tvars == <<rvars, l>>

ToSet(seq) == { seq[i] : i \in 1..Len(seq) }
IsEvent(name) == l <= Len(TraceLog) /\ TraceLog[l].ev = name /\ l' = l + 1

TraceInit ==
  /\ l = 1
  /\ keyPoly = [c \in 1..(TOld + 1) |-> 1]
  /\ deal = [i \in Old |-> [c \in 2..(TNew + 1) |-> 1]]
  /\ fault = NoFault
  /\ pc = [j \in New |-> "wait"]
  /\ newX = [j \in New |-> 0] /\ newY = [j \in New |-> 0]
  /\ newBigX = [j \in New |-> <<>>]
  /\ culprits = [j \in New |-> {}]

TraceReset ==
  /\ IsEvent("Reset")
  /\ LET e == TraceLog[l] IN
     /\ e.q = Q /\ e.oldids = OldIds /\ e.newids = NewIds /\ e.told = TOld /\ e.tnew = TNew
     /\ keyPoly' = [c \in 1..(TOld + 1) |-> e.keypoly[c]]
     /\ deal' = [i \in Old |-> [c \in 2..(TNew + 1) |-> e.deals[i][c]]]
     /\ fault' = [kind |-> e.fault.kind, from |-> e.fault.from, to |-> e.fault.to, idx |-> e.fault.idx, delta |-> e.fault.delta]
  /\ pc' = [j \in New |-> "wait"]
  /\ newX' = [j \in New |-> 0] /\ newY' = [j \in New |-> 0]
  /\ newBigX' = [j \in New |-> <<>>]
  /\ culprits' = [j \in New |-> {}]

(* what old member p put on the wire (before any alteration in transit) *)
TraceDeal ==
  /\ IsEvent("Deal")
  /\ LET e == TraceLog[l] IN
     /\ e.p \in Old
     /\ \A c \in Coef : e.open[c] = Poly(e.p)[c]          \* constant term = lambda_p * x_p as PrepareForSigning computes it
     /\ \A j \in New : e.shares[j] = ShareSent(e.p, j)
     /\ e.y = Y                                           \* the group key the old member announces
  /\ UNCHANGED rvars

TraceR4 ==
  /\ IsEvent("R4")
  /\ LET e == TraceLog[l] IN
     /\ Round4(e.p)
     /\ CASE pc'[e.p] = "ok" ->
               \/ /\ e.out = "ok"
                  /\ e.x = newX'[e.p]
                  /\ e.y = newY'[e.p]
                  /\ Len(e.bigx) = NNew /\ \A k \in 1..NNew : e.bigx[k] = newBigX'[e.p][k]
               \/ /\ e.out = "none"      \* the result is emitted in round 5, which waits for a member that refused
                  /\ fault # NoFault
          [] pc'[e.p] = "refuse" ->
               /\ e.out = "abort"
               /\ ToSet(e.culprits) \ {NOld + e.p} = culprits'[e.p]    \* "V_0 != y" names the member itself
          [] pc'[e.p] = "degenerate" ->
               e.out \in {"abort", "panic"}

TraceNext == TraceReset \/ TraceDeal \/ TraceR4
TraceSpec == TraceInit /\ [][TraceNext]_tvars

TraceInv ==
  /\ KeyPreserved /\ SameView /\ OwnShareMatches /\ NeverAcceptWrongKey
  /\ HonestCompletes /\ NoSilentAccept /\ BlameSound /\ BlameExact

ASSUME TLCSet(1, 0)
HighWater == TLCSet(1, IF l > TLCGet(1) THEN l ELSE TLCGet(1))
TraceAccepted ==
  /\ PrintT(<<"TRACE_HW", TLCGet(1) - 1, Len(TraceLog)>>)
  /\ TLCGet(1) = Len(TraceLog) + 1
=============================================================================
