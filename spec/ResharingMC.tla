---------------------------- MODULE ResharingMC ----------------------------
(* Resharing (both curves): committees, final ACKs, erasure of old shares,   *)
(* emission of new key data, and runs that are cut anywhere (every reachable *)
(* state is a cut point, so "for every prefix" is "invariant") or in which a *)
(* single party goes silent.                                                 *)
(*                                                                           *)
(* In the code an old member erases its share (input.Xi.SetInt64(0)) in the  *)
(* Start of round 5, in the same step in which it emits on its end channel;  *)
(* a new member copies the verified data into its save data and emits it in  *)
(* round 5 as well.  So: erased(p) <=> ended[p] >= 1 for old p, emitted(q)   *)
(* <=> ended[q] >= 1 for new q, and acked(q) <=> q's round-4 ACK is in sent. *)
EXTENDS EngineMC

ASSUME IsResharing(Proto)

VARIABLE silent          \* 0 or the party that has gone silent (crashed)
rvars == <<vars, silent>>

AckType == IF Proto = "eddsa-resharing" THEN "DGRound4Message" ELSE "DGRound4Message2"
Acked(q)  == \E m \in sent : m.from = q /\ m.type = AckType
Erased(p) == p \in Old /\ ended[p] >= 1
Emitted(q) == q \in New /\ ended[q] >= 1

RInit == MCInit /\ silent = 0

Alive(m) == silent # m.to /\ silent # m.from

RNext ==
  \/ \E p \in Parties : silent # p /\ DoStart(p) /\ UNCHANGED silent
  \/ \E m \in AllMsgs : Alive(m) /\ DoDeliver(m) /\ UNCHANGED silent
  \/ \E m \in AllMsgs : Alive(m) /\ DoDup(m) /\ UNCHANGED silent
  \/ \E m \in AllMsgs : Alive(m) /\ DoFlip(m) /\ UNCHANGED silent
  \/ \E p \in Parties : silent = 0 /\ silent' = p /\ UNCHANGED vars

RSpec == RInit /\ [][RNext]_rvars

(* C04: no old share is erased, and no new member emits key material, until   *)
(* every new member has verified its shares and acknowledged.                  *)
OrderInv ==
  \A p \in Parties : (Erased(p) \/ Emitted(p)) => \A q \in New : Acked(q)

(* C04: a new member acknowledges only after it has received (and, in the      *)
(* code, verified) every old member's commitment, share and de-commitment.     *)
AckAfterShares ==
  \A q \in New : Acked(q) => \A r \in 1..3 : Required(q, r) \subseteq got[q]

(* C04: if the run stops anywhere before the last ACK, every old member's key  *)
(* data is intact.                                                             *)
IntactUntilAcked ==
  (\E q \in New : ~Acked(q)) => \A p \in Old : ~Erased(p)

(* without a silent party and with everything delivered the run completes *)
RNoStuck == (silent = 0) => NoStuck

RView == <<View, silent>>
=============================================================================
