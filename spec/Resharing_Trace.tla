--------------------------- MODULE Resharing_Trace ---------------------------
(* Trace validation of real resharing runs: besides the engine conformance of *)
(* Engine_Trace, every event carries what the harness observed from outside:  *)
(* which old members' caller-held share is still the original value, which    *)
(* new members have emitted key data, whose final ACK has appeared on the     *)
(* wire.  The observations must coincide with the specification's state after *)
(* every single call, and the C04 ordering invariants must hold there.        *)
EXTENDS Engine_Trace

AckType == IF Proto = "eddsa-resharing" THEN "DGRound4Message" ELSE "DGRound4Message2"
AckedIn(s, q) == \E m \in s : m.from = q /\ m.type = AckType

RObsMatches(e) ==
  /\ \A p \in Old : (p \in ToSet(e.intact)) <=> (ended'[p] = 0)
  /\ \A q \in New : (q \in ToSet(e.emitted)) <=> (ended'[q] >= 1)
  /\ \A q \in New : (q \in ToSet(e.acked)) <=> AckedIn(sent', q)

RTraceStart   == TraceStart   /\ RObsMatches(TraceLog[l])
RTraceDeliver == TraceDeliver /\ RObsMatches(TraceLog[l])
RTraceNext == TraceReset \/ RTraceStart \/ RTraceDeliver
RTraceSpec == TraceInit /\ [][RTraceNext]_tvars

ROrderInv ==
  \A p \in Parties : ended[p] >= 1 => \A q \in New : AckedIn(sent, q)
RAckAfterShares ==
  \A q \in New : AckedIn(sent, q) => \A r \in 1..3 : Required(q, r) \subseteq got[q]
RTraceInv == TraceInv /\ ROrderInv /\ RAckAfterShares
=============================================================================
