---------------------------- MODULE SafePrimeGen ----------------------------
(* Producer / consumer structure of common.GetRandomSafePrimesConcurrent      *)
(* (common/safe_prime.go) - property C19: "the safe-prime generator returns   *)
(* the requested number of pairs ..., stops promptly with an error when its   *)
(* context is cancelled or its entropy source fails, and leaves no goroutine  *)
(* behind".                                                                   *)
(*                                                                            *)
(* One call of the function is modelled:                                      *)
(*   consumer  = the calling goroutine:  make(primeCh, PrimeCap), make(errCh,  *)
(*               ErrCap) - in the code c*n and c -,                           *)
(*               generatorCtx = WithCancel(ctx), the spawn loop (wg.Add(1);   *)
(*               go ...), the select loop, and after `return` the deferred    *)
(*               calls in the order Go runs them:                             *)
(*               cancelGeneratorCtx(); wg.Wait(); close(errCh); close(primeCh)*)
(*   producers = the goroutines of runGenPrimeRoutine:                        *)
(*               for { select { case <-ctx.Done(): return                     *)
(*                              default: ReadFull(rand) (error -> errCh<-err; *)
(*                                       return); sieve and tests; if a safe  *)
(*                                       prime was found: send on primeCh } } *)
(*               with `defer wg.Done()`                                       *)
(*   canceller = whoever holds the cancel function of the caller's ctx (or    *)
(*               its deadline): may fire at any moment, or never              *)
(* The arithmetic is abstracted to one non-deterministic choice per attempt   *)
(* ("this candidate is a safe prime" / "it is not"); what a returned pair     *)
(* must look like is the business of Samplers.tla.  The entropy source is a   *)
(* counter of reads that still succeed (Inf = it never fails).  A source that *)
(* fails may fail for every producer at the same moment (a closed descriptor, *)
(* an exhausted stream): cfg.bar > 0 describes a reader whose failing Read    *)
(* keeps its callers inside ("held") until it is opened - by the bar-th       *)
(* caller arriving or by its own time limit - and then returns the error to   *)
(* all of them at once.  With bar = 0 a failing Read returns immediately.     *)
(*                                                                            *)
(* The capacities of the two channels are constants of the model              *)
(* (PrimeCapOf, ErrCapOf: functions of the configuration).  The code has      *)
(* CodePrimeCap = c*n and CodeErrCap = c.  The error send of a producer is a  *)
(* plain blocking send, so errCh must have room for every error that nobody   *)
(* receives: the consumer receives at most one, and none when it returns for  *)
(* another reason (enough primes, cancellation).  ErrCap < c deadlocks: see   *)
(* the regression runs "spg-defect-errcap-*" of the harness.                  *)
(*                                                                            *)
(* Switches (both reproduce a wrong design, for regression demonstrations):   *)
(*   SendSelectsOnCancel  TRUE : the send is `select { case primeCh <- x:     *)
(*                               case <-ctx.Done(): return }`  (the code)     *)
(*                        FALSE: a plain `primeCh <- x` (the code before      *)
(*                               commit 89caa94: TLC reports the deadlock -   *)
(*                               producers blocked on the full channel, the   *)
(*                               consumer in wg.Wait())                       *)
(*   CloseBeforeWait      FALSE: close() after wg.Wait() (the code)           *)
(*                        TRUE : the channels are closed before the join: a   *)
(*                               producer can send on a closed channel        *)
(* A call is configured by the record cfg (a variable that never changes, so  *)
(* that one TLC run covers a set of configurations and the trace module can   *)
(* re-initialise it per recorded call):                                       *)
(*   c      number of producers (concurrency)          n   numPrimes          *)
(*   budget number of entropy reads that succeed (Inf: all)                   *)
(*   pre    the caller's context is already done when the call starts         *)
(*   bar    0: a failing Read returns at once;  k > 0: it holds its callers   *)
(*          until k of them are inside (or the reader's time limit passes)    *)
(*   heal   FALSE: once exhausted the source fails for ever;  TRUE: a single  *)
(*          Read fails, after it the source works again (a transient fault:   *)
(*          one producer reports an error, the others go on finding primes)   *)
EXTENDS Integers, FiniteSets, TLC

CONSTANTS Configs, SendSelectsOnCancel, CloseBeforeWait,
          MaxC,           \* upper bound of cfg.c over Configs (size of the producer table)
          PrimeCapOf(_),  \* capacity of primeCh for a configuration   (the code: CodePrimeCap)
          ErrCapOf(_)     \* capacity of errCh for a configuration     (the code: CodeErrCap)

Inf == -1

(* make(chan *GermainSafePrime, concurrency*numPrimes); make(chan error, concurrency) *)
CodePrimeCap(c) == c.c * c.n
CodeErrCap(c)   == c.c
(* a buffered channel is modelled by its length; capacity 0 (rendezvous) is outside this model *)
ASSUME \A c \in Configs : PrimeCapOf(c) >= 1 /\ ErrCapOf(c) >= 1
(* a reader that holds its callers back fails all of them: no barrier at a transient fault *)
ASSUME \A c \in Configs : c.heal => c.bar = 0 /\ c.budget # Inf

VARIABLES
  cfg,          \* the configuration of this call
  ppc,          \* ppc[i] : control state of producer i
  cpc,          \* control state of the consumer
  spawned,      \* producers started so far (spawn loop index)
  primeLen,     \* results buffered in primeCh   (capacity cfg.c * cfg.n)
  errLen,       \* errors buffered in errCh      (capacity cfg.c)
  primeClosed, errClosed,
  extDone,      \* the caller's ctx is done
  ownCancel,    \* cancelGeneratorCtx() has run
  reads,        \* successful entropy reads left (Inf: unlimited)
  readFailed,   \* the entropy source has returned an error at least once
  barOpen,      \* the barrier of the failing reader is open (cfg.bar = 0: open from the start)
  wg,           \* WaitGroup counter
  got,          \* len(primes) in the consumer
  outcome,      \* what the call returns: "none" (not yet) | "primes" | "cancelled" | "entropy"
  sendPanic,    \* a producer executed a send on a closed channel (run-time panic)
  lateSteps     \* iterations of the consumer's select loop begun after the caller's ctx was done
vars == <<cfg, ppc, cpc, spawned, primeLen, errLen, primeClosed, errClosed, extDone, ownCancel,
          reads, readFailed, barOpen, wg, got, outcome, sendPanic, lateSteps>>

Producers == 1..cfg.c
PrimeCap  == PrimeCapOf(cfg)
ErrCap    == ErrCapOf(cfg)
GenDone   == extDone \/ ownCancel        \* generatorCtx is a child of ctx

PStates == {"unstarted", "check", "read", "held", "send", "senderr", "done"}
Held    == {i \in Producers : ppc[i] = "held"}          \* producers inside the failing Read, waiting for the barrier
(* the deferred calls, in execution order *)
DeferOrder == IF CloseBeforeWait THEN <<"ret_cancel", "ret_closeerr", "ret_closeprime", "ret_wait", "done">>
                                 ELSE <<"ret_cancel", "ret_wait", "ret_closeerr", "ret_closeprime", "done">>
AfterDefer(s) == DeferOrder[(CHOOSE k \in 1..4 : DeferOrder[k] = s) + 1]
CStates == {"spawn", "select", "ret_cancel", "ret_wait", "ret_closeerr", "ret_closeprime", "done"}

InitFor(c) ==
  /\ cfg = c
  /\ ppc = [i \in 1..MaxC |-> IF i <= c.c THEN "unstarted" ELSE "done"]
  /\ cpc = "spawn" /\ spawned = 0
  /\ primeLen = 0 /\ errLen = 0 /\ primeClosed = FALSE /\ errClosed = FALSE
  /\ extDone = c.pre /\ ownCancel = FALSE
  /\ reads = c.budget /\ readFailed = FALSE /\ barOpen = (c.bar = 0)
  /\ wg = 0 /\ got = 0 /\ outcome = "none" /\ sendPanic = FALSE /\ lateSteps = 0

Init == \E c \in Configs : InitFor(c)

(* the same state as a next state (SafePrimeGen_Trace starts a new recorded call with it) *)
ResetFor(c) ==
  /\ cfg' = c
  /\ ppc' = [i \in 1..MaxC |-> IF i <= c.c THEN "unstarted" ELSE "done"]
  /\ cpc' = "spawn" /\ spawned' = 0
  /\ primeLen' = 0 /\ errLen' = 0 /\ primeClosed' = FALSE /\ errClosed' = FALSE
  /\ extDone' = c.pre /\ ownCancel' = FALSE
  /\ reads' = c.budget /\ readFailed' = FALSE /\ barOpen' = (c.bar = 0)
  /\ wg' = 0 /\ got' = 0 /\ outcome' = "none" /\ sendPanic' = FALSE /\ lateSteps' = 0

-----------------------------------------------------------------------------
(* producers *)

Exit(i) == ppc' = [ppc EXCEPT ![i] = "done"] /\ wg' = wg - 1          \* return; defer wg.Done()

(* top of the loop: `select { case <-ctx.Done(): return; default: ... }` *)
PCheck(i) ==
  /\ ppc[i] = "check"
  /\ IF GenDone THEN Exit(i)
                ELSE ppc' = [ppc EXCEPT ![i] = "read"] /\ UNCHANGED wg
  /\ UNCHANGED <<cfg, barOpen, cpc, spawned, primeLen, errLen, primeClosed, errClosed, extDone, ownCancel, reads,
                 readFailed, got, outcome, sendPanic, lateSteps>>

(* io.ReadFull fails.  A producer whose Read meets the exhausted source while the reader's barrier is still *)
(* closed waits inside Read ("held"); the error comes back when the barrier is open.                        *)
PReadHold(i) ==
  /\ ppc[i] = "read" /\ reads = 0 /\ ~barOpen
  /\ ppc' = [ppc EXCEPT ![i] = "held"]
  /\ UNCHANGED <<cfg, barOpen, cpc, spawned, primeLen, errLen, primeClosed, errClosed, extDone, ownCancel, reads,
                 readFailed, wg, got, outcome, sendPanic, lateSteps>>

PReadFail(i) ==
  /\ ppc[i] \in {"read", "held"} /\ reads = 0 /\ barOpen
  /\ ppc' = [ppc EXCEPT ![i] = "senderr"] /\ readFailed' = TRUE
  /\ reads' = IF cfg.heal THEN Inf ELSE reads
  /\ UNCHANGED <<cfg, barOpen, cpc, spawned, primeLen, errLen, primeClosed, errClosed, extDone, ownCancel,
                 wg, got, outcome, sendPanic, lateSteps>>

ReadOK == reads # 0 /\ reads' = IF reads = Inf THEN Inf ELSE reads - 1

(* the candidate (after the sieve, Miller-Rabin on q, Pocklington on p, the bit length test and Validate) *)
(* is not a safe prime: next iteration *)
PReadMiss(i) ==
  /\ ppc[i] = "read" /\ ReadOK
  /\ ppc' = [ppc EXCEPT ![i] = "check"]
  /\ UNCHANGED <<cfg, barOpen, cpc, spawned, primeLen, errLen, primeClosed, errClosed, extDone, ownCancel,
                 readFailed, wg, got, outcome, sendPanic, lateSteps>>

(* ... it is one: go and send it *)
PReadFound(i) ==
  /\ ppc[i] = "read" /\ ReadOK
  /\ ppc' = [ppc EXCEPT ![i] = "send"]
  /\ UNCHANGED <<cfg, barOpen, cpc, spawned, primeLen, errLen, primeClosed, errClosed, extDone, ownCancel,
                 readFailed, wg, got, outcome, sendPanic, lateSteps>>

(* `errCh <- err; return` - a plain send: blocks while the buffer is full, panics on a closed channel *)
PSendErr(i) ==
  /\ ppc[i] = "senderr"
  /\ IF errClosed
       THEN sendPanic' = TRUE /\ Exit(i) /\ UNCHANGED errLen
       ELSE errLen < ErrCap /\ errLen' = errLen + 1 /\ Exit(i) /\ UNCHANGED sendPanic
  /\ UNCHANGED <<cfg, barOpen, cpc, spawned, primeLen, primeClosed, errClosed, extDone, ownCancel, reads,
                 readFailed, got, outcome, lateSteps>>

(* the send of a result.  A send on a closed channel panics, also inside a select. *)
PSend(i) ==
  /\ ppc[i] = "send"
  /\ \/ /\ primeClosed
        /\ sendPanic' = TRUE /\ Exit(i) /\ UNCHANGED primeLen
     \/ /\ ~primeClosed /\ primeLen < PrimeCap                       \* case primeCh <- x
        /\ primeLen' = primeLen + 1
        /\ ppc' = [ppc EXCEPT ![i] = "check"]
        /\ UNCHANGED <<wg, sendPanic>>
     \/ /\ SendSelectsOnCancel /\ GenDone                            \* case <-ctx.Done(): return
        /\ Exit(i) /\ UNCHANGED <<primeLen, sendPanic>>
  /\ UNCHANGED <<cfg, barOpen, cpc, spawned, errLen, primeClosed, errClosed, extDone, ownCancel, reads,
                 readFailed, got, outcome, lateSteps>>

Producer(i) == PCheck(i) \/ PReadHold(i) \/ PReadFail(i) \/ PReadMiss(i) \/ PReadFound(i) \/ PSendErr(i) \/ PSend(i)

-----------------------------------------------------------------------------
(* consumer *)

(* for i := 0; i < concurrency; i++ { wg.Add(1); runGenPrimeRoutine(...) } *)
CSpawn ==
  /\ cpc = "spawn"
  /\ IF spawned < cfg.c
       THEN /\ spawned' = spawned + 1 /\ wg' = wg + 1
            /\ ppc' = [ppc EXCEPT ![spawned + 1] = "check"]
            /\ UNCHANGED cpc
       ELSE cpc' = "select" /\ UNCHANGED <<spawned, wg, ppc>>
  /\ UNCHANGED <<cfg, barOpen, primeLen, errLen, primeClosed, errClosed, extDone, ownCancel, reads, readFailed,
                 got, outcome, sendPanic, lateSteps>>

Return(o) == outcome' = o /\ cpc' = DeferOrder[1]

(* one iteration of `for { select { case r := <-primeCh ... case err := <-errCh ... case <-ctx.Done() ... } }` *)
(* Go chooses among the ready cases at random.                                                                *)
CSelect ==
  /\ cpc = "select"
  /\ lateSteps' = IF extDone THEN lateSteps + 1 ELSE lateSteps
  /\ \/ /\ primeLen > 0
        /\ primeLen' = primeLen - 1 /\ got' = got + 1
        /\ IF got + 1 >= cfg.n THEN Return("primes") ELSE UNCHANGED <<outcome, cpc>>
        /\ UNCHANGED errLen
     \/ /\ errLen > 0
        /\ errLen' = errLen - 1 /\ Return("entropy") /\ UNCHANGED <<primeLen, got>>
     \/ /\ extDone
        /\ Return("cancelled") /\ UNCHANGED <<primeLen, errLen, got>>
  /\ UNCHANGED <<cfg, barOpen, ppc, spawned, primeClosed, errClosed, extDone, ownCancel, reads, readFailed, wg, sendPanic>>

(* the deferred calls *)
CDefer ==
  /\ cpc \in {"ret_cancel", "ret_wait", "ret_closeerr", "ret_closeprime"}
  /\ cpc' = AfterDefer(cpc)
  /\ CASE cpc = "ret_cancel"     -> ownCancel' = TRUE /\ UNCHANGED <<errClosed, primeClosed>>
       [] cpc = "ret_wait"       -> wg = 0 /\ UNCHANGED <<ownCancel, errClosed, primeClosed>>   \* blocks until every producer has exited
       [] cpc = "ret_closeerr"   -> errClosed' = TRUE /\ UNCHANGED <<ownCancel, primeClosed>>
       [] cpc = "ret_closeprime" -> primeClosed' = TRUE /\ UNCHANGED <<ownCancel, errClosed>>
  /\ UNCHANGED <<cfg, barOpen, ppc, spawned, primeLen, errLen, extDone, reads, readFailed, wg, got, outcome, sendPanic, lateSteps>>

Consumer == CSpawn \/ CSelect \/ CDefer

-----------------------------------------------------------------------------
(* the caller's context becomes done (cancel function or deadline) *)
ExtCancel ==
  /\ ~extDone /\ cpc # "done"
  /\ extDone' = TRUE
  /\ UNCHANGED <<cfg, barOpen, ppc, cpc, spawned, primeLen, errLen, primeClosed, errClosed, ownCancel, reads,
                 readFailed, wg, got, outcome, sendPanic, lateSteps>>

(* the reader opens its barrier: the bar-th caller has arrived, or the reader's own time limit has passed *)
(* (time is not modelled: the step may be taken at any moment; the trace module records how many callers  *)
(* were inside and which of the two reasons applied)                                                      *)
BarOpen ==
  /\ ~barOpen /\ cpc # "done"
  /\ barOpen' = TRUE
  /\ UNCHANGED <<cfg, ppc, cpc, spawned, primeLen, errLen, primeClosed, errClosed, extDone, ownCancel, reads,
                 readFailed, wg, got, outcome, sendPanic, lateSteps>>
BarFull == Cardinality(Held) >= cfg.bar

Returned  == cpc = "done"
Quiescent == Returned /\ \A i \in Producers : ppc[i] = "done"
(* stuttering in the final state only: TLC's deadlock check reports every other state without a successor *)
Finished == Quiescent /\ UNCHANGED vars

Step == Consumer \/ (\E i \in Producers : Producer(i))
Next == Step \/ ExtCancel \/ BarOpen \/ Finished

(* Fairness: every goroutine that can run does run (weak fairness); a producer that keeps trying *)
(* eventually hits a safe prime (strong fairness of the lucky branch).  The canceller owes nothing; *)
(* the reader does open its barrier (it has a time limit).                                          *)
Fairness ==
  /\ WF_vars(Consumer) /\ WF_vars(BarOpen)
  /\ \A i \in 1..MaxC : WF_vars(Producer(i)) /\ SF_vars(PReadFound(i))
Spec == Init /\ [][Next]_vars /\ Fairness

-----------------------------------------------------------------------------
(* properties *)

TypeOK ==
  /\ cfg \in Configs
  /\ ppc \in [1..MaxC -> PStates] /\ cpc \in CStates /\ spawned \in 0..cfg.c
  /\ primeLen \in 0..PrimeCap /\ errLen \in 0..ErrCap
  /\ primeClosed \in BOOLEAN /\ errClosed \in BOOLEAN /\ extDone \in BOOLEAN /\ ownCancel \in BOOLEAN
  /\ reads \in {Inf} \cup 0..cfg.budget /\ readFailed \in BOOLEAN /\ barOpen \in BOOLEAN
  /\ wg \in 0..cfg.c /\ got \in 0..cfg.n
  /\ outcome \in {"none", "primes", "cancelled", "entropy"} /\ sendPanic \in BOOLEAN
  /\ lateSteps \in 0..(cfg.n + 1)

(* the WaitGroup counts the producers that have been started and have not exited *)
WaitGroupExact == wg = Cardinality({i \in Producers : ppc[i] \notin {"unstarted", "done"}})

(* "leaves no goroutine behind": when the call returns every producer has exited *)
NoLeak == Returned => \A i \in Producers : ppc[i] = "done"

(* no producer ever sends on a closed channel (would be a run-time panic in a library goroutine) *)
NoSendOnClosed == ~sendPanic

(* the error send can never block: errCh has room for the error of every producer that is about to send *)
(* one (a plain send: a producer that blocks here never reaches wg.Done())                               *)
ErrSendNeverBlocks ==
  ~errClosed => errLen + Cardinality({i \in Producers : ppc[i] = "senderr"}) <= ErrCap
(* producers wait inside Read only at a reader with a barrier, and only once the source is exhausted *)
HeldOnlyAtFailure == Held # {} => reads = 0 /\ cfg.bar > 0

(* "returns the requested number of pairs" or an error - and each error has its cause *)
ResultCount == outcome # "none" =>
  /\ outcome = "primes"    => got = cfg.n /\ (cfg.budget = Inf \/ (cfg.heal /\ readFailed) \/ cfg.budget - reads >= cfg.n)
  /\ outcome = "cancelled" => extDone
  /\ outcome = "entropy"   => readFailed /\ (reads = 0 \/ cfg.heal)
(* no error without a cause: an undisturbed call with a working entropy source can only return primes *)
NoSpuriousError == (outcome \in {"cancelled", "entropy"}) => (extDone \/ readFailed)
(* a context that is done before the call yields nothing but the cancellation error; *)
(* an entropy source that fails at the first read never yields primes               *)
PreCancelled == cfg.pre /\ outcome # "none" => outcome = "cancelled" /\ reads = cfg.budget
NoEntropyNoPrimes == cfg.budget # Inf /\ cfg.budget < cfg.n /\ ~cfg.heal => outcome # "primes"

(* "stops promptly ... when its context is cancelled": once the caller's ctx is done the consumer begins   *)
(* at most n further iterations of its loop (each may still pick a buffered result), and (liveness, weak  *)
(* fairness only - no luck needed) the call returns                                                       *)
PromptCancelBound == lateSteps <= cfg.n
PromptCancel == extDone ~> Returned
(* the entropy source failing leads to a return as well *)
PromptEntropyFailure == readFailed ~> Returned
(* and in any case the call returns, and then everything is quiet *)
Terminates == <>Returned
Settles    == <>[]Quiescent

(* what a finished call looks like from outside (used by SafePrimeGen_Trace) *)
Count == IF outcome = "primes" THEN got ELSE 0
=============================================================================
