------------------------- MODULE SafePrimeGen_Trace -------------------------
(* Trace validation of real calls of common.GetRandomSafePrimesConcurrent    *)
(* against SafePrimeGen.tla (binding A; no hooks: only what can be seen from *)
(* outside the function is recorded).                                        *)
(*                                                                           *)
(* The harness (harness/props/c19_gen.go) runs the real generator and writes *)
(* for every call the lines                                                  *)
(*   {"ev":"Call","c":..,"n":..,"entropy":"inf"|"zero"|"finite"|"barrier"|   *)
(*    "transient","reads":j,"bar":k,"pre":b}                                 *)
(*       c        the concurrency argument, projected to min(c, MaxC)        *)
(*       n        numPrimes                                                  *)
(*       entropy  the reader handed to the call: never fails / fails at the  *)
(*                first byte / fails after some bytes / "barrier": exactly j *)
(*                Read calls succeed, every later one fails, and the failing *)
(*                Read holds its callers until k of them are inside (k = the *)
(*                projected concurrency) or the reader is opened otherwise   *)
(*                (its time limit; the harness, after it has cancelled the   *)
(*                context): all producers meet the failure at the same time  *)
(*                "transient": j Read calls succeed, the next one fails, all *)
(*                later ones succeed again                                   *)
(*       reads    0 unless entropy is "barrier" or "transient"               *)
(*       bar      0 unless entropy = "barrier"                               *)
(*       pre      the context was cancelled before the call                  *)
(*   {"ev":"BarrierOpen","held":h,"forced":b}   (barrier readers only, and   *)
(*       only if a caller was inside when the reader opened)                 *)
(*       h  the callers inside the failing Read at that moment (projected    *)
(*          like c);  b  the reader was opened before k callers were inside  *)
(*   {"ev":"Cancel"}            the harness started cancelling the context   *)
(*                              before it saw the call return                *)
(*   {"ev":"Return","outcome":"primes"|"cancelled"|"entropy","count":k}      *)
(*       the value the call returned (class of the error, number of pairs)   *)
(*   {"ev":"Settled","lib_goroutines":g,"late_reads":r,"reader_failed":b}    *)
(*       g  goroutines with runGenPrimeRoutine frames left after the settle  *)
(*          loop; r  reads of the entropy source after the call had returned *)
(*          (a producer still running then); b  whether the reader ever      *)
(*          returned its error                                               *)
(* The goroutines' own steps cannot be observed; they are the hidden steps   *)
(* of the model between two lines.  A recorded call is explained iff the     *)
(* model, started in the configuration of the Call line, has a behaviour     *)
(* with exactly these observable events in this order that ends in the final *)
(* state the Settled line describes.  Identical calls are recorded once.     *)
(* An entropy source that fails after some bytes is modelled by the budget   *)
(* n (enough reads for n primes, then failure): every externally visible     *)
(* result of any positive budget is also a result of budget n (a budget      *)
(* below n can only yield the error, which budget n yields too).             *)
EXTENDS SafePrimeGen, Sequences, Json, IOUtils

TraceFile == IF "TRACE" \in DOMAIN IOEnv THEN IOEnv.TRACE ELSE "trace.ndjson"
TraceLog  == ndJsonDeserialize(TraceFile)

VARIABLES l,      \* next line to consume
          phase   \* "idle" (no call in flight) | "running" | "returned"
tvars == <<vars, l, phase>>

TraceInit ==
  /\ l = 1 /\ phase = "idle"
  /\ InitFor([c |-> 1, n |-> 1, budget |-> Inf, pre |-> FALSE, bar |-> 0, heal |-> FALSE])

IsEvent(name) == l <= Len(TraceLog) /\ TraceLog[l].ev = name /\ l' = l + 1

Budget(e) == CASE e.entropy = "inf"    -> Inf
               [] e.entropy = "zero"   -> 0
               [] e.entropy = "finite" -> e.n
               [] e.entropy \in {"barrier", "transient"} -> e.reads   \* counted in Read calls by the reader: exact

TraceCall ==
  /\ phase = "idle"
  /\ IsEvent("Call")
  /\ LET e == TraceLog[l] IN
       /\ e.c \in 1..MaxC /\ e.n \in 1..3 /\ e.pre \in BOOLEAN
       /\ e.entropy \in {"inf", "zero", "finite", "barrier", "transient"}
       /\ e.reads \in 0..3 /\ e.bar \in 0..e.c
       /\ (e.entropy \notin {"barrier", "transient"} => e.reads = 0) /\ (e.entropy # "barrier" => e.bar = 0)
       /\ ResetFor([c |-> e.c, n |-> e.n, budget |-> Budget(e), pre |-> e.pre, bar |-> e.bar, heal |-> (e.entropy = "transient")])
  /\ phase' = "running"

(* what the goroutines do between two observations *)
TraceHidden ==
  /\ phase = "running"
  /\ Step
  /\ UNCHANGED <<l, phase>>

TraceCancel ==
  /\ phase = "running"
  /\ IsEvent("Cancel")
  /\ ExtCancel
  /\ UNCHANGED phase

(* the reader opened while h producers were inside its failing Read *)
TraceBarrierOpen ==
  /\ phase = "running"
  /\ IsEvent("BarrierOpen")
  /\ LET e == TraceLog[l] IN
       /\ e.held >= 1 /\ Cardinality(Held) = e.held
       /\ e.forced \/ BarFull
  /\ BarOpen
  /\ UNCHANGED phase

TraceReturn ==
  /\ phase = "running"
  /\ IsEvent("Return")
  /\ Returned
  /\ LET e == TraceLog[l] IN outcome = e.outcome /\ Count = e.count
  /\ phase' = "returned"
  /\ UNCHANGED vars

TraceSettled ==
  /\ phase = "returned"
  /\ IsEvent("Settled")
  /\ Quiescent /\ ~sendPanic
  /\ LET e == TraceLog[l] IN e.lib_goroutines = 0 /\ e.late_reads = 0 /\ (e.reader_failed <=> readFailed)
  /\ phase' = "idle"
  /\ UNCHANGED vars

TraceNext == TraceCall \/ TraceHidden \/ TraceCancel \/ TraceBarrierOpen \/ TraceReturn \/ TraceSettled
TraceSpec == TraceInit /\ [][TraceNext]_tvars

(* the design invariants, evaluated on every state of every explanation *)
TraceInv == WaitGroupExact /\ NoLeak /\ NoSendOnClosed /\ ErrSendNeverBlocks /\ ResultCount /\ NoSpuriousError
            /\ PreCancelled /\ NoEntropyNoPrimes /\ PromptCancelBound /\ HeldOnlyAtFailure

(* high-water mark of consumed lines; needs -workers 1 *)
ASSUME TLCSet(1, 0)
HighWater == TLCSet(1, IF l > TLCGet(1) THEN l ELSE TLCGet(1))
TraceAccepted ==
  /\ PrintT(<<"TRACE_HW", TLCGet(1) - 1, Len(TraceLog)>>)
  /\ TLCGet(1) = Len(TraceLog) + 1
=============================================================================
