------------------------------ MODULE Samplers ------------------------------
(* What the random helpers of common/random.go, the safe-prime generator of  *)
(* common/safe_prime.go and the pre-parameter construction of                *)
(* ecdsa/keygen/prepare.go / crypto/utils.go / crypto/paillier must return   *)
(* (property C19), written over small integers so that TLC can                *)
(*   (1) check the design: the rejection loops as a state machine, with the  *)
(*       documented ranges as invariants, for every argument in Bounds,      *)
(*   (2) predict, per helper, for which arguments NO draw is ever accepted   *)
(*       (the loop cannot end: DeadArgs) - the harness confronts the real    *)
(*       functions with exactly these arguments,                             *)
(*   (3) serve as the oracle for values logged from the real code            *)
(*       (Samplers_Trace.tla): every logged return value must be a value the *)
(*       state machine can return for that argument and satisfy the          *)
(*       documented predicate.                                               *)
(* TLC integers are 32 bit: every product below stays under 2^31 as long as  *)
(* moduli are < 46341 (ModMul) and candidates for IsPrime are < 2^16.        *)
EXTENDS Integers, FiniteSets, Sequences, TLC

CONSTANTS Bounds    \* arguments (bounds / moduli) explored by the state machine

-----------------------------------------------------------------------------
(* arithmetic.  The recursions are written as recursive FUNCTIONS: TLC evaluates the argument of a     *)
(* function application once, whereas operator arguments are substituted and re-evaluated at each use. *)
GcdF[a \in Nat, b \in Nat] == IF b = 0 THEN a ELSE GcdF[b, a % b]
Gcd(a, b) == GcdF[a, b]
Pow2(k) == 2 ^ k                                        \* k <= 30
BitLen(n) == IF n <= 0 THEN 0 ELSE CHOOSE k \in 1..31 : 2 ^ (k - 1) <= n /\ (k = 31 \/ n < 2 ^ k)

(* trial division; n < 2^16 *)
IsPrime(n) == n >= 2 /\ \A d \in 2..255 : d * d > n \/ n % d # 0
SmallestFactorF[n \in Nat, d \in Nat] == IF d * d > n THEN n ELSE IF n % d = 0 THEN d ELSE SmallestFactorF[n, d + 1]
SmallestFactor(n) == SmallestFactorF[n, 2]

ModMul(a, b, m) == ((a % m) * (b % m)) % m             \* m < 46341
ModExpF[b \in Nat, e \in Nat, m \in Nat] ==
  IF e = 0 THEN 1 % m
  ELSE LET h == ModExpF[b, e \div 2, m] IN
       IF e % 2 = 0 THEN ModMul(h, h, m) ELSE ModMul(ModMul(h, h, m), b, m)
ModExp(b, e, m) == ModExpF[b, e, m]

Units(n) == {v \in 1..(n - 1) : Gcd(v, n) = 1}
(* w is a square modulo n (of a unit) *)
IsSquareMod(w, n) == \E x \in 1..(n - 1) : Gcd(x, n) = 1 /\ (x * x) % n = w
IsResidue(w, n)   == \E x \in 0..(n - 1) : (x * x) % n = w % n

(* Legendre and Jacobi symbols from their definitions (the code uses big.Jacobi, i.e. reciprocity) *)
Legendre(a, p) == IF a % p = 0 THEN 0 ELSE IF \E x \in 1..(p - 1) : (x * x) % p = a % p THEN 1 ELSE -1
JacobiF[a \in Nat, n \in Nat] == IF n = 1 THEN 1 ELSE LET p == SmallestFactor(n) IN Legendre(a, p) * JacobiF[a, n \div p]
Jacobi(a, n) == JacobiF[a, n]

-----------------------------------------------------------------------------
(* the safe-prime generator: what a returned pair must look like.  The code builds q with bits-1 bits *)
(* and its two top bits set and returns p = 2q+1; the property speaks about p.                        *)
TopTwoSet(x, bits) == bits >= 2 /\ x \div Pow2(bits - 2) = 3
SafePair(q, p, bits) ==
  /\ IsPrime(q) /\ IsPrime(p) /\ p = 2 * q + 1
  /\ BitLen(p) = bits /\ TopTwoSet(p, bits)
(* what the code promises about q implies it (checked for all toy sizes by TLC: GeneratorShape) *)
CodeShape(q, bits) == BitLen(q) = bits - 1 /\ TopTwoSet(q, bits - 1)
GeneratorShape == \A bits \in 6..12 : \A q \in Pow2(bits - 2)..(Pow2(bits - 1) - 1) :
                    CodeShape(q, bits) <=> (BitLen(2 * q + 1) = bits /\ TopTwoSet(2 * q + 1, bits))
SafePairs(bits) == {q \in Pow2(bits - 2)..(Pow2(bits - 1) - 1) : SafePair(q, 2 * q + 1, bits)}

-----------------------------------------------------------------------------
(* the helpers of common/random.go, one operator per function / branch *)

(* MustGetRandomInt(rand, bits) = rand.Int(rand, 2^bits - 1): uniform in [0, 2^bits - 1) *)
MustGetRandomIntRange(bits) == 0..(Pow2(bits) - 2)

IsNumberInMultiplicativeGroup(n, v) == n > 0 /\ v < n /\ v >= 1 /\ Gcd(v, n) = 1

Fns == {"MustGetRandomInt", "GetRandomPositiveInt", "GetRandomPositiveRelativelyPrimeInt",
        "GetRandomGeneratorOfTheQuadraticResidue", "GetRandomQuadraticNonResidue", "GetRandomPrimeInt"}

(* the arguments each helper is defined for (n <= 0 returns nil; a non residue is asked of an odd n; *)
(* there is no prime of one bit; TLC's integers bound the bit counts)                                *)
Domain(fn, a) ==
  CASE fn = "MustGetRandomInt"             -> a \in 1..12
    [] fn = "GetRandomPrimeInt"            -> a \in 2..15
    [] fn = "GetRandomQuadraticNonResidue" -> a >= 1 /\ a % 2 = 1
    [] OTHER                               -> a >= 1

(* the draw of one loop iteration (GetRandomPrimeInt delegates to crypto/rand.Prime: candidates of exactly a bits) *)
DrawRange(fn, a) ==
  CASE fn = "MustGetRandomInt"  -> MustGetRandomIntRange(a)
    [] fn = "GetRandomPrimeInt" -> Pow2(a - 1)..(Pow2(a) - 1)
    [] OTHER                    -> MustGetRandomIntRange(BitLen(a))

(* the loop's exit condition *)
Accept(fn, a, try) ==
  CASE fn = "MustGetRandomInt"                         -> TRUE
    [] fn = "GetRandomPositiveInt"                     -> try < a
    [] fn = "GetRandomPositiveRelativelyPrimeInt"      -> IsNumberInMultiplicativeGroup(a, try)
    [] fn = "GetRandomGeneratorOfTheQuadraticResidue"  -> IsNumberInMultiplicativeGroup(a, try)
    [] fn = "GetRandomQuadraticNonResidue"             -> try < a /\ Jacobi(try, a) = -1
    [] fn = "GetRandomPrimeInt"                        -> IsPrime(try)

(* what is returned for an accepted draw *)
Result(fn, a, try) == IF fn = "GetRandomGeneratorOfTheQuadraticResidue" THEN (try * try) % a ELSE try

(* the documented range / promise of each helper (this is the property, not the code) *)
Documented(fn, a, v) ==
  CASE fn = "MustGetRandomInt"                         -> 0 <= v /\ v < Pow2(a)
    [] fn = "GetRandomPositiveInt"                     -> 0 <= v /\ v < a
    [] fn = "GetRandomPositiveRelativelyPrimeInt"      -> 1 <= v /\ v < a /\ Gcd(v, a) = 1
    [] fn = "GetRandomGeneratorOfTheQuadraticResidue"  -> 1 <= v /\ v < a /\ Gcd(v, a) = 1 /\ IsSquareMod(v, a)
    [] fn = "GetRandomQuadraticNonResidue"             -> 0 <= v /\ v < a /\ Gcd(v, a) = 1 /\ ~IsResidue(v, a)
    [] fn = "GetRandomPrimeInt"                        -> IsPrime(v) /\ BitLen(v) = a

Returnable(fn, a) == {Result(fn, a, t) : t \in {t \in DrawRange(fn, a) : Accept(fn, a, t)}}
CanReturn(fn, a)  == \E t \in DrawRange(fn, a) : Accept(fn, a, t)
(* arguments in the helper's domain for which the loop can never end *)
DeadArgs(fn) == {a \in Bounds : Domain(fn, a) /\ ~CanReturn(fn, a)}

VARIABLES st,     \* "idle" | "loop" | "returned"
          call,   \* [fn, a]
          ret     \* returned value
svars == <<st, call, ret>>

NoCall == [fn |-> "-", a |-> 0]
Init == st = "idle" /\ call = NoCall /\ ret = -1

Call(fn, a) == st = "idle" /\ Domain(fn, a) /\ st' = "loop" /\ call' = [fn |-> fn, a |-> a] /\ ret' = -1
(* one iteration: draw; leave the loop iff the draw is accepted *)
Iterate == /\ st = "loop"
           /\ \E t \in DrawRange(call.fn, call.a) :
                IF Accept(call.fn, call.a, t) THEN st' = "returned" /\ ret' = Result(call.fn, call.a, t)
                                              ELSE UNCHANGED <<st, ret>>
           /\ UNCHANGED call
Forget == st = "returned" /\ st' = "idle" /\ call' = NoCall /\ ret' = -1

Next == (\E fn \in Fns, a \in Bounds : Call(fn, a)) \/ Iterate \/ Forget
Spec == Init /\ [][Next]_svars

Contract == st = "returned" => Documented(call.fn, call.a, ret)
(* the exact sets: every documented value of the first two helpers can be returned *)
Exact == st = "idle" =>
  \A a \in Bounds :
    /\ Returnable("GetRandomPositiveInt", a) = 0..(a - 1)
    /\ Returnable("GetRandomPositiveRelativelyPrimeInt", a) = Units(a)
(* a call that can never return: its loop has no accepted draw (design level; listed for the harness) *)
Stuck == st = "loop" /\ ~CanReturn(call.fn, call.a)

-----------------------------------------------------------------------------
(* pre-parameters (ecdsa/keygen/prepare.go): P = 2p+1, Q = 2q+1, NTilde = P*Q,                     *)
(*   f1, alpha <- GetRandomPositiveRelativelyPrimeInt(NTilde); beta = alpha^-1 mod p*q;            *)
(*   h1 = f1^2 mod NTilde; h2 = h1^alpha mod NTilde                                                *)
Inverses(x, m) == {y \in 1..(m - 1) : (x * y) % m = 1}
PreParamsRelations(P, Q) ==
  LET p == (P - 1) \div 2  q == (Q - 1) \div 2  N == P * Q IN
  \A f1 \in Units(N), alpha \in Units(N) :
    LET h1 == (f1 * f1) % N  h2 == ModExp(h1, alpha, N) IN
      /\ IsSquareMod(h1, N) /\ IsSquareMod(h2, N)
      /\ \A beta \in Inverses(alpha % (p * q), p * q) : ModExp(h2, beta, N) = h1
(* alpha is drawn coprime to NTilde, not to p*q: draws for which beta does not exist (modPQ.ModInverse = nil) *)
AlphaWithoutBeta(P, Q) ==
  LET p == (P - 1) \div 2  q == (Q - 1) \div 2 IN {alpha \in Units(P * Q) : Inverses(alpha % (p * q), p * q) = {}}

(* a Paillier key of crypto/paillier.GenerateKeyPair for modulus length bits *)
SafePrimeOfLen(P, bits) == IsPrime(P) /\ IsPrime((P - 1) \div 2) /\ BitLen(P) = bits
PaillierKey(bits, P, Q, N, phi, lambda) ==
  /\ P # Q
  /\ SafePrimeOfLen(P, bits \div 2) /\ SafePrimeOfLen(Q, bits \div 2)
  /\ N = P * Q /\ BitLen(N) = bits
  /\ phi = (P - 1) * (Q - 1)
  /\ lambda * Gcd(P - 1, Q - 1) = phi
=============================================================================
