-------------------------- MODULE Samplers_Trace --------------------------
(* TLC as the oracle for values returned by the real code (property C19).   *)
(* The harness logs one ndjson line per real call whose argument and result *)
(* fit into TLC's integers:                                                 *)
(*   {"fn": name, "arg": [ints], "ret": [ints]}                              *)
(*   SafePrime    arg <<bits>>      ret <<q, p>>     one pair returned by    *)
(*                                  common.GetRandomSafePrimesConcurrent     *)
(*   the helpers of common/random.go (names as in Samplers!Fns)              *)
(*                arg <<a>>         ret <<v>>                                *)
(*   NTilde       arg <<P, Q>>      ret <<N, h1, h2>>   crypto.GenerateNTildei*)
(*                                  on two safe primes the generator returned*)
(*   PaillierKey  arg <<bits>>      ret <<P, Q, N, phi, lambda>>             *)
(*                                  paillier.GenerateKeyPair at toy size     *)
(* A line is explained iff the value is one the state machine of Samplers   *)
(* can return for that argument (it lies in the draw range of the loop and  *)
(* passes the loop's exit test) AND it satisfies the documented predicate.  *)
(* The first line that is not explained stops the validation (high-water    *)
(* mark), the harness re-evaluates that line with math/big.                 *)
EXTENDS Samplers, Json, IOUtils

TraceFile == IF "TRACE" \in DOMAIN IOEnv THEN IOEnv.TRACE ELSE "trace.ndjson"
TraceLog  == ndJsonDeserialize(TraceFile)

VARIABLE l
tvars == <<svars, l>>

TraceInit == l = 1 /\ Init

HelperOK(fn, a, v) ==
  /\ Domain(fn, a)
  /\ IF fn = "GetRandomGeneratorOfTheQuadraticResidue"
       THEN v \in Returnable(fn, a)
       ELSE v \in DrawRange(fn, a) /\ Accept(fn, a, v)
  /\ Documented(fn, a, v)

(* one function per kind of line: TLC evaluates the arguments of a function application once (the fields of *)
(* the line are expressions that re-read the log)                                                          *)
SafeLine[bits \in Int, q \in Int, p \in Int] == SafePair(q, p, bits) /\ CodeShape(q, bits)
HelperLine[fn \in Fns, a \in Int, v \in Int] == HelperOK(fn, a, v)
NTildeLine[P \in Int, Q \in Int, N \in Int, h1 \in Int, h2 \in Int] ==
  /\ N = P * Q
  /\ HelperOK("GetRandomGeneratorOfTheQuadraticResidue", N, h1)
  /\ HelperOK("GetRandomGeneratorOfTheQuadraticResidue", N, h2)
PaillierLine[bits \in Int, P \in Int, Q \in Int, N \in Int, phi \in Int, lambda \in Int] ==
  PaillierKey(bits, P, Q, N, phi, lambda)

LineOK(e) ==
  CASE e.fn = "SafePrime"   -> SafeLine[e.arg[1], e.ret[1], e.ret[2]]
    [] e.fn = "NTilde"      -> NTildeLine[e.arg[1], e.arg[2], e.ret[1], e.ret[2], e.ret[3]]
    [] e.fn = "PaillierKey" -> PaillierLine[e.arg[1], e.ret[1], e.ret[2], e.ret[3], e.ret[4], e.ret[5]]
    [] e.fn \in Fns         -> HelperLine[e.fn, e.arg[1], e.ret[1]]
    [] OTHER                -> FALSE

(* LineOK is the condition of an IF so that TLC evaluates it as a value (as a conjunct of the action its *)
(* disjunctions and quantifiers would be expanded into successor states)                                *)
TraceNext == /\ l <= Len(TraceLog)
             /\ IF LineOK(TraceLog[l]) THEN l' = l + 1 /\ UNCHANGED svars ELSE FALSE
TraceSpec == TraceInit /\ [][TraceNext]_tvars

ASSUME TLCSet(1, 0)
HighWater == TLCSet(1, IF l > TLCGet(1) THEN l ELSE TLCGet(1))
TraceAccepted ==
  /\ PrintT(<<"TRACE_HW", TLCGet(1) - 1, Len(TraceLog)>>)
  /\ TLCGet(1) = Len(TraceLog) + 1
=============================================================================
