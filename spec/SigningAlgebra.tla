--------------------------- MODULE SigningAlgebra ---------------------------
(* Design-level algebra of the two signing protocols over a toy group Z_q    *)
(* (points are represented by their discrete logarithms).                    *)
(*                                                                           *)
(* ECDSA (GG18 as implemented in ecdsa/signing): the key x is Shamir shared  *)
(* among NKey holders with threshold T; a signer set S (|S| >= T+1) weights  *)
(* its shares by Lagrange coefficients (prepare.go), w_i, sum w_i = x.       *)
(* Each signer picks k_i, gamma_i; MtA turns k_i*gamma_j and k_i*w_j into    *)
(* additive shares; delta = k*gamma is opened; R = gamma*delta^-1 * G =      *)
(* k^-1 * G; r = xOf(R); s_i = m k_i + r sigma_i; s = sum s_i; low-S         *)
(* normalisation flips the recovery parity (finalize.go).                    *)
(* xOf is an arbitrary "x coordinate" function: even (xOf(a) = xOf(-a)).     *)
(*                                                                           *)
(* EdDSA (eddsa/signing): R = sum r_i G, s = sum (r_i + h w_i), verification *)
(* s G = R + h A.                                                            *)
EXTENDS Zq, TLC

CONSTANTS NKey, T, Ids, XofTable
(* Ids: sequence of NKey share ids (may exceed Q: aliases mod Q are refused). *)
(* XofTable: function 1..(Q-1) -> Zq with XofTable[a] = XofTable[Q-a]         *)
ASSUME Len(Ids) = NKey /\ T < NKey
ASSUME \A a \in ZqStar : XofTable[a] = XofTable[Q - a]

VARIABLES poly, signers, ks, gs, m, delta, phase
avars == <<poly, signers, ks, gs, m, delta, phase>>

Polys == [1..(T + 1) -> Zq]
SignerSets == UNION { SubSeqs(NKey, k, 1) : k \in (T + 1)..NKey }

Secret      == poly[1]
Share(i)    == Eval(poly, Ids[i])
W(S, pos)   == Mul(Lagrange(Pick(Ids, S), pos, 0), Share(S[pos]))   \* prepare.go

Init ==
  /\ poly \in Polys
  /\ signers \in SignerSets
  /\ m \in {0, 1, Q - 1}
  /\ ks = <<>> /\ gs = <<>> /\ delta = 0
  /\ phase = "keyed"

(* rounds 1-4: nonces chosen, MtA, delta opened *)
PickNonces ==
  /\ phase = "keyed"
  /\ \E kk \in [1..Len(signers) -> {1, 2, Q - 1}], gg \in [1..Len(signers) -> {1, 3}] :
       /\ ks' = kk /\ gs' = gg
       /\ delta' = Mul(SumSeq(kk), SumSeq(gg))
  /\ phase' = "nonced"
  /\ UNCHANGED <<poly, signers, m>>

Stutter == phase = "nonced" /\ UNCHANGED avars
Next == PickNonces \/ Stutter
Spec == Init /\ [][Next]_avars

-----------------------------------------------------------------------------
K     == SumSeq(ks)
Gamma == SumSeq(gs)
WSum  == SumSeq([pos \in 1..Len(signers) |-> W(signers, pos)])
Sigma == Mul(K, WSum)                     \* what the second MtA shares add up to
RLog  == Mul(Gamma, Inv(delta))           \* discrete log of R = k^-1
Rx    == XofTable[RLog]
SRaw  == Add(Mul(m, K), Mul(Rx, Sigma))
LowS  == IF 2 * SRaw > Q THEN Q - SRaw ELSE SRaw

(* standard ECDSA verification of (r, s) for digest m under public key y (as discrete log) *)
Verifies(r, s, y) ==
  /\ r # 0 /\ s # 0
  /\ LET w == Inv(s) u1 == Mul(m, w) u2 == Mul(r, w) pt == Add(u1, Mul(u2, y))
     IN pt # 0 /\ XofTable[pt] = r

(* C01/C02 "subset shape": any signer set of at least T+1 holders re-weights to the key *)
LagrangeSumsToKey ==
  (DistinctModQ(Ids) /\ NonZeroModQ(Ids)) => WSum = Secret

(* C01: whenever the nonces are usable (k, delta invertible; r, s nonzero) the emitted *)
(* signature verifies under y = x*G, S is in the lower half, and it does not verify    *)
(* under a different key                                                               *)
EcdsaCorrect ==
  (phase = "nonced" /\ DistinctModQ(Ids) /\ NonZeroModQ(Ids) /\ K # 0 /\ Gamma # 0 /\ Rx # 0 /\ SRaw # 0) =>
     /\ RLog = Inv(K)
     /\ Verifies(Rx, LowS, Secret)
     /\ 2 * LowS <= Q

(* C18: with an additive offset d on the key the signature verifies under y + d*G *)
(* (all signers add d to... the first signer's share only - key_derivation_util)  *)
EcdsaOffset ==
  (phase = "nonced" /\ DistinctModQ(Ids) /\ NonZeroModQ(Ids) /\ K # 0 /\ Gamma # 0) =>
     \A d \in {1, 2} :
        LET sig2 == Mul(K, Add(WSum, d))
            s2   == Add(Mul(m, K), Mul(Rx, sig2))
        IN (Rx # 0 /\ s2 # 0) =>
             /\ LET w == Inv(s2) pt == Add(Mul(m, w), Mul(Mul(Rx, w), Add(Secret, d)))
                IN pt # 0 /\ XofTable[pt] = Rx

(* C02: EdDSA: s G = R + h A for every challenge h *)
EddsaCorrect ==
  (phase = "nonced" /\ DistinctModQ(Ids) /\ NonZeroModQ(Ids)) =>
     \A h \in {0, 1, 2, Q - 1} :
        LET s == SumSeq([pos \in 1..Len(signers) |-> Add(ks[pos], Mul(h, W(signers, pos)))])
        IN s = Add(K, Mul(h, Secret))
=============================================================================
