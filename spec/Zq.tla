------------------------------- MODULE Zq -------------------------------
(* Arithmetic in the prime field Z_q for a toy prime q (TLC integers are    *)
(* 32 bit, so q < 2^15 keeps every product representable).                  *)
EXTENDS Integers, FiniteSets, Sequences

CONSTANT Q            \* a small prime: the group order of a toy curve
ASSUME Q \in Nat /\ Q > 2 /\ \A d \in 2..(Q - 1) : Q % d # 0

Zq     == 0..(Q - 1)
ZqStar == 1..(Q - 1)
Add(a, b) == (a + b) % Q
Sub(a, b) == (a - b + Q * (1 + (b \div Q))) % Q
Mul(a, b) == (a * b) % Q
Neg(a)    == (Q - (a % Q)) % Q

RECURSIVE Pow(_, _)
Pow(a, e) == IF e = 0 THEN 1 ELSE Mul(a, Pow(a, e - 1))
Inv(a)    == Pow(a % Q, Q - 2)          \* Fermat; Inv(0) = 0 marks "no inverse"

RECURSIVE SumSeq(_)
SumSeq(s) == IF s = <<>> THEN 0 ELSE Add(Head(s), SumSeq(Tail(s)))

(* f(x) = c[1] + c[2] x + ... + c[n] x^(n-1) *)
RECURSIVE Eval(_, _)
Eval(c, x) == IF c = <<>> THEN 0 ELSE Add(Head(c), Mul(x % Q, Eval(Tail(c), x)))

(* Lagrange coefficient of point i for interpolation at x over the id sequence ids *)
RECURSIVE ProdOver(_, _, _, _, _)
ProdOver(ids, i, x, j, num) ==
  IF j > Len(ids) THEN 1
  ELSE IF j = i THEN ProdOver(ids, i, x, j + 1, num)
  ELSE Mul(IF num THEN Sub(x % Q, ids[j] % Q) ELSE Sub(ids[i] % Q, ids[j] % Q), ProdOver(ids, i, x, j + 1, num))
Lagrange(ids, i, x) == Mul(ProdOver(ids, i, x, 1, TRUE), Inv(ProdOver(ids, i, x, 1, FALSE)))

(* interpolate the value at x from shares (sequence aligned with ids) *)
RECURSIVE InterpAcc(_, _, _, _)
InterpAcc(ids, shares, x, i) ==
  IF i > Len(ids) THEN 0 ELSE Add(Mul(Lagrange(ids, i, x), shares[i]), InterpAcc(ids, shares, x, i + 1))
Interp(ids, shares, x) == InterpAcc(ids, shares, x, 1)

DistinctModQ(ids) == \A i, j \in 1..Len(ids) : i # j => ids[i] % Q # ids[j] % Q
NonZeroModQ(ids)  == \A i \in 1..Len(ids) : ids[i] % Q # 0

(* all strictly increasing index sequences of length k out of 1..n *)
RECURSIVE SubSeqs(_, _, _)
SubSeqs(n, k, from) ==
  IF k = 0 THEN {<<>>}
  ELSE UNION { { <<i>> \o s : s \in SubSeqs(n, k - 1, i + 1) } : i \in from..n }
Pick(seq, idx) == [i \in 1..Len(idx) |-> seq[idx[i]]]
=============================================================================
