#!/bin/bash
# usage: seedeval.sh <seed-dir> <package-dir> <go-test-run-pattern> <test-scope e.g. ./ecdsa/...> -- <check ids...>
# 1. confirms the seeded change in a scratch worktree of /repo (demo passes without, fails with; existing tests of the scope pass with)
# 2. runs the named checks (quick tier) from a scratch worktree of /verif (committed state) against that patched copy
#    (VERIF_REPO), so that neither /repo nor /verif is disturbed while other jobs use them. (Equivalent to applying the patch
#    to /repo, running ./check and restoring /repo.)
set -u
export GOFLAGS=-mod=mod GOPROXY=off GOSUMDB=off GOTOOLCHAIN=local
SEED=$(cd "$1" && pwd); PKG=$2; PAT=$3; SCOPE=$4; shift 5
WT=/tmp/wt/eval-$$
VWT=/tmp/vf/seedeval-$$
git -C /repo worktree add -q --detach $WT HEAD || exit 2
git -C /verif worktree add -q --detach $VWT HEAD || exit 2
trap 'git -C /repo worktree remove --force $WT; git -C /verif worktree remove --force $VWT; rm -f /tmp/wt/eval-$$.*' EXIT
for f in $SEED/*demo*test.go; do cp $f $WT/$PKG/zz_$(basename $f); done
( cd $WT && timeout 1200 go test -vet=off -count=1 -run "$PAT" ./$PKG/ > /tmp/wt/eval-$$.a.log 2>&1 ); A=$?
( cd $WT && git apply $SEED/patch.diff ) || { echo "patch does not apply"; exit 2; }
( cd $WT && timeout 1200 go test -vet=off -count=1 -run "$PAT" ./$PKG/ > /tmp/wt/eval-$$.b.log 2>&1 ); B=$?
rm -f $WT/$PKG/zz_*demo*test.go
( cd $WT && timeout 1800 go test -vet=off -count=1 $SCOPE > /tmp/wt/eval-$$.c.log 2>&1 ); C=$?
echo "CONFIRM demo-without-patch=$A (want 0) demo-with-patch=$B (want !=0) existing-tests-with-patch=$C (want 0)"
[ $C -ne 0 ] && tail -n 5 /tmp/wt/eval-$$.c.log
for id in "$@"; do
  ( cd $VWT && VERIF_REPO=$WT timeout 2400 ./check $id --tier quick > /tmp/wt/eval-$$.$id.log 2>&1 ); R=$?
  echo "CHECK $id exit=$R"; grep -E "^VIOLATION|^  what|^INCONCLUSIVE|KNOWN-FINDING" /tmp/wt/eval-$$.$id.log | cut -c1-400 | head -n 6
done
