#!/bin/bash
# usage: seedeval.sh <seed-dir> <package-dir> <go-test-run-pattern> <test-scope e.g. ./ecdsa/...> -- <check ids...>
# 1. confirms the seeded change in a scratch worktree (demo passes without, fails with; existing tests of the scope pass with)
# 2. applies it to /repo, runs the named checks (quick tier), and restores /repo.
set -u
export GOFLAGS=-mod=mod GOPROXY=off GOSUMDB=off GOTOOLCHAIN=local
SEED=$1; PKG=$2; PAT=$3; SCOPE=$4; shift 5
WT=/tmp/wt/eval-$$
git -C /repo worktree add -q --detach $WT HEAD || exit 2
trap 'git -C /repo worktree remove --force $WT; git -C /repo checkout -q -- . ' EXIT
cp $SEED/demo_test.go $WT/$PKG/zz_seed_demo_test.go
( cd $WT && timeout 900 go test -vet=off -count=1 -run "$PAT" ./$PKG/ > /tmp/wt/eval-$$.a.log 2>&1 ); A=$?
( cd $WT && git apply $SEED/patch.diff ) || { echo "patch does not apply"; exit 2; }
( cd $WT && timeout 900 go test -vet=off -count=1 -run "$PAT" ./$PKG/ > /tmp/wt/eval-$$.b.log 2>&1 ); B=$?
rm $WT/$PKG/zz_seed_demo_test.go
( cd $WT && timeout 1500 go test -vet=off -count=1 $SCOPE > /tmp/wt/eval-$$.c.log 2>&1 ); C=$?
echo "CONFIRM demo-without-patch=$A (want 0) demo-with-patch=$B (want !=0) existing-tests-with-patch=$C (want 0)"
[ $C -ne 0 ] && tail -n 5 /tmp/wt/eval-$$.c.log
git -C /repo apply $SEED/patch.diff || { echo "patch does not apply to /repo"; exit 2; }
for id in "$@"; do
  ( cd /verif && timeout 1800 ./check $id --tier quick > /tmp/wt/eval-$$.$id.log 2>&1 ); R=$?
  echo "CHECK $id exit=$R"; grep -E "^VIOLATION|^  what|^INCONCLUSIVE|KNOWN-FINDING" /tmp/wt/eval-$$.$id.log | cut -c1-400 | head -n 6
done
git -C /repo checkout -q -- .
rm -f /tmp/wt/eval-$$.*.log
