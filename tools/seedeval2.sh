#!/bin/bash
# usage: seedeval2.sh <seed-dir containing patch.diff + demo_test.go> <test-scope e.g. "./eddsa/..."> -- <check ids...>
# The demo's first lines carry "// package dir: <dir>". Same procedure as seedeval.sh (isolated worktrees of /repo and /verif HEAD).
# env TIER=quick|thorough (default quick), KEEPLOG=1 keeps the check logs under /tmp/wt
set -u
export GOFLAGS=-mod=mod GOPROXY=off GOSUMDB=off GOTOOLCHAIN=local
SEED=$(cd "$1" && pwd); SCOPE=$2; shift 3
TIER=${TIER:-quick}
PKG=$(grep -m1 -o 'package dir: *[^ ]*' $SEED/demo_test.go | sed 's/package dir: *//')
PAT=$(grep -m1 -o 'func TestSeedDemo[A-Za-z0-9_]*' $SEED/demo_test.go | sed 's/func //')
[ -z "$PKG" ] && { echo "no package dir in demo"; exit 2; }
WT=/tmp/wt/eval-$$
VWT=/tmp/vf/seedeval-$$
git -C /repo worktree add -q --detach $WT HEAD || exit 2
git -C /verif worktree add -q --detach $VWT HEAD || exit 2
trap 'git -C /repo worktree remove --force $WT; git -C /verif worktree remove --force $VWT; [ -z "${KEEPLOG:-}" ] && rm -f /tmp/wt/eval-$$.*' EXIT
if [ -z "${SKIPCONFIRM:-}" ]; then
cp $SEED/demo_test.go $WT/$PKG/zz_seed_demo_test.go
( cd $WT && timeout 1200 go test -vet=off -count=1 -run "$PAT" ./$PKG/ > /tmp/wt/eval-$$.a.log 2>&1 ); A=$?
fi
( cd $WT && git apply $SEED/patch.diff ) || { echo "patch does not apply"; exit 2; }
if [ -z "${SKIPCONFIRM:-}" ]; then
( cd $WT && timeout 1200 go test -vet=off -count=1 -run "$PAT" ./$PKG/ > /tmp/wt/eval-$$.b.log 2>&1 ); B=$?
rm -f $WT/$PKG/zz_seed_demo_test.go
( cd $WT && timeout 2400 go test -vet=off -count=1 $SCOPE > /tmp/wt/eval-$$.c.log 2>&1 ); C=$?
echo "CONFIRM demo-without-patch=$A (want 0) demo-with-patch=$B (want !=0) existing-tests-with-patch=$C (want 0)"
[ $C -ne 0 ] && tail -n 5 /tmp/wt/eval-$$.c.log
fi
for id in "$@"; do
  ( cd $VWT && VERIF_REPO=$WT timeout 3600 ./check $id --tier $TIER > /tmp/wt/eval-$$.$id.log 2>&1 ); R=$?
  echo "CHECK $id exit=$R"; grep -E "^VIOLATION|^  what|^INCONCLUSIVE|KNOWN-FINDING" /tmp/wt/eval-$$.$id.log | cut -c1-400 | head -n 6
done
