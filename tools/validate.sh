#!/bin/bash
# validates MANIFEST.json and every evidence file against the schemas
python3-vt - <<'PY'
import json,jsonschema,glob,sys
ok=True
try:
    jsonschema.validate(json.load(open('/verif/MANIFEST.json')), json.load(open('/root/.vp/MANIFEST.schema.json')))
except Exception as e:
    print("MANIFEST invalid:", str(e)[:300]); ok=False
sch=json.load(open('/root/.vp/EVIDENCE.schema.json'))
for f in sorted(x for x in glob.glob('/verif/evidence/*.json') if not x.endswith('.replay.json')):
    try:
        jsonschema.validate(json.load(open(f)), sch)
    except Exception as e:
        print(f, "invalid:", str(e)[:300]); ok=False
print("validate:", "ok" if ok else "FAILED")
sys.exit(0 if ok else 1)
PY
