#!/usr/bin/env python3
"""Regenerates MANIFEST.json from the table below (keeps it valid at all times)."""
import json, subprocess
claimed = {
 "C07": dict(cat="model_checking", tech="TLA+ engine spec (EngineMC.tla) model-checked by TLC + trace validation of real runs (Engine_Trace.tla) + cross-schedule comparison",
   text="TLC explores every interleaving of Start/Deliver/duplicate/flipped deliveries of the party round engine for small committees of all six protocols (no stuck state, one result, schedule-independent send set); the same spec validates, line by line, traces of real runs under directed and seeded-random schedules (FIFO, LIFO, starvation, future-first, duplicates, pre-Start), and the harness compares sent-message multisets across schedules and applies the C01-C04 result oracles.",
   note="sequential pump (one Update at a time); protocol tables transcribed in spec/Protocols.tla; TLC/JVM trusted", ref="§4.1, §6 C07"),
 "C08": dict(cat="model_checking", tech="trace validation against Engine_Trace.tla after every single call + TLC model checking of WaitingExact/SendDiscipline/FlipInert",
   text="Every public call of every real run (all six protocols, all strategies incl. flipped broadcast flags) is logged with round number, WaitingFor set, emitted messages with routing and fan-out, result count, wire round-trip and secret-scan booleans; TLC must explain each line by the Engine action and the post-state must be equal; WaitingExact is evaluated after every delivery. The same properties are model-checked on the design.",
   note="round/routing tables in spec/Protocols.tla are the reference; secrets scanned are the byte encodings of long-term secrets >= 120 bits", ref="§4.1, §6 C08"),
}
claimed.update({
 "C01": dict(cat="model_checking", tech="scenario space + Engine_Trace.tla validation of real signing runs; independent ECDSA verify/recover oracle; SigningAlgebra.tla exhaustive over a toy field",
   text="Real ECDSA signing sessions over keys from real keygens for (n,t), signer subsets (incl. |S|>t+1, permuted ids), digest classes (0,1,q-1,leading zeros,random; >= q must be refused before any send), fullBytesLen, schedules; every finisher's output judged by an independent verifier and public-key recovery written in the harness (byte equality across signers, low-S, widths, R||S, echoed message); each run trace-validated against the engine spec; the signing algebra (Lagrange re-weighting of every subset, s = k(m + r x), low-S, offset) is model-checked by TLC for all polynomials of a toy field.",
   note="independent secp256k1 arithmetic (self-checked against published vectors); toy-field algebra says nothing about the 256-bit code by itself - the binding is the oracle on real outputs", ref="§6 C01, §4.7"),
 "C02": dict(cat="model_checking", tech="scenario space + Engine_Trace.tla validation of real signing runs; crypto/ed25519 (stdlib) as independent verifier; SigningAlgebra.tla (EddsaCorrect)",
   text="Real EdDSA signing sessions over freshly generated keys for several (n,t), subsets, message classes (empty-ish, short, 32 bytes, long, leading zeros with/without fullBytesLen) and schedules; the 64-byte signature of every finisher must be identical and verify with the Go standard library Ed25519 verifier over the echoed message under the RFC 8032 encoding of the group key; runs trace-validated; algebra model-checked over a toy field.",
   note="crypto/ed25519 is independent of the agl/dcrd code the library signs with", ref="§6 C02"),
 "C03": dict(cat="model_checking", tech="real keygens judged by independent curve arithmetic (polynomial-in-the-exponent, subset interpolation, sum of first commitments read off the wire) + Engine_Trace.tla + KeygenAlgebra.tla exhaustive over toy fields + KeygenData.tla (data level, model-checked) bound by KeygenData_Trace.tla to real ECDSA key generations run on toy elliptic curves, every share / public point / key recomputed by TLC",
   text="Real EdDSA and ECDSA key generations for all 1<=t<n (EdDSA to n=4 quick / 6 thorough, ECDSA to n=3 quick / 5 thorough), party id classes (small, random 256-bit, just below the order, above the order) and schedules; public views compared across parties, Xi*G = BigXj[i], all share points on one degree-t polynomial, every (t+1)-subset interpolates to the key, key = sum of the first Feldman commitments seen on the wire, Paillier private/public consistency; traces validated; KeygenAlgebra.tla checks the same predicates for all dealer polynomials of toy fields; KeygenData.tla specifies per party and round what is dealt, checked and combined, and real ECDSA key generations on toy curves (orders 11..251) are validated against it value by value.",
   note="ECDSA pre-parameters are the five vendored sets; safe-prime generation is C19's subject", ref="§6 C03, §4.7"),
})
claimed.update({
 "C04": dict(cat="model_checking", tech="ResharingMC.tla (TLC: ordering invariants with arbitrary cut points and one silent party) + Resharing_Trace.tla validation of real runs with erase/emit/ack observations after every call + cut-point signing + ResharingData.tla (data level: weighted old shares, dealings, V_0 = y requirement; model-checked) bound by ResharingData_Trace.tla to real ECDSA resharings on toy elliptic curves",
   text="Real EdDSA and ECDSA resharing runs (old subsets >= t+1, new thresholds below/equal/above, proofs on/off, directed and random schedules, one party going silent at a seeded step): after every single call the harness compares every old member's caller-held share with a snapshot, records which new members emitted and which final ACKs are on the wire; TLC must accept every line of Resharing_Trace.tla and its ordering invariants in every state; where nothing was erased the old committee's live key data must still sign; completed runs: C03 predicates for the new committee, unchanged key, old shares erased, t'+1 new members sign, chains of resharings. ResharingMC.tla checks the same invariants over all interleavings.",
   note="new committee ids distinct from the old ones; acceptance of shares of a wrong key is exercised by C05's catalogue (wrong-secret old member)", ref="§4.3, §6 C04"),
 "C05": dict(cat="fault_enumeration", tech="spec-derived fault catalogue (FaultsMC.tla + message/field tables) replayed on the wire bytes of real runs in journalled child processes; TLC model-checks blame soundness and the resharing key-loss clause; KeygenData.tla / ResharingData.tla predict, for real toy-curve runs with one altered share / opening / commitment / wrong secret, who must abort and whom it must name",
   text="One deviating participant per run: every message type and bytes field (list elements by index class), alteration kinds +1 / random / value from another party / removed, whole-message mirror, wrong secret, duplicated pre-parameters, at three positions, on all six protocols; per case the honest parties' outputs (validity, equality), culprits (soundness; completeness for covered fields) and, in resharing, erased-old-versus-emitted-new are judged. FaultsMC.tla yields the design-level counterexample for the ECDSA key-loss finding and none for EdDSA.",
   note="single deviator, reliable broadcast, honest abort; table of uncovered fields in props/c05.go; known findings in known_findings.json", ref="§4.2, §6 C05"),
})
claimed.update({
 "C06": dict(cat="fault_enumeration", tech="spec-derived message/field tables x boundary values, crafted relations, mutated wire bytes, sender indices, deliveries after abort, replayed on real runs in journalled child processes + direct calls of every exported verifier/decoder by reflection over their arguments",
   text="Every protocol message type and bytes field is set to boundary values (zero byte, empty, 1, q-1, q, q+1, 2q, N-1, N, N+1, N^2, 2^k, oversized), flipped, lists shortened/extended/emptied; commitments are crafted to open to off-curve, identity, torsion points and wrong arities; theta shares summing to zero; random/mutated/empty/wrong-type wire bytes; out-of-range sender indices; deliveries continue after an abort. Each case runs in a child process whose journal attributes a panic in any goroutine or a hang (confirmed by re-running the case alone, goroutine dump must show a library frame) to the case. Exported verifiers/decoders are called directly with the same value classes in every argument and proof component.",
   note="negative big.Int arguments and corrupted caller-owned key structs are not explored; the Engine model's Deliver is total (accept / ignore / error), a crash is a trace no spec action explains", ref="§6 C06, §7"),
 "C09": dict(cat="model_checking", tech="Lock.tla model-checked by TLC + real concurrent runs under the Go race detector whose critical-section log (mutex hook, build tag verif) is validated against EngineConc_Trace.tla",
   text="Start, UpdateFromBytes (several goroutines per party, random order/yields, optionally invalid input in parallel) and WaitingFor of every party run concurrently in a -race build on all six protocols; violations: race reports with a library frame, broken mutual exclusion seen by the hook, not exactly one result per party / failing C01-C04 oracle, or a critical-section log that TLC cannot explain as PassDeliver/Start/read steps of the engine spec. Lock.tla explores all interleavings of updater/reader/starter threads on the model (NoUnsyncAccess, MutualExclusion, EndOnce, SameResult, Termination).",
   note="real-code interleavings are seeded-random, not exhaustive; hook adds no synchronisation; known finding: unlocked WrapError path", ref="§4.4, §6 C09"),
})
not_yet = {}
props = [json.loads(l) for l in open('/verif/properties.jsonl')]
extra = json.load(open('/verif/manifest_extra.json')) if __import__('os').path.exists('/verif/manifest_extra.json') else {}
claimed.update(extra.get("claimed", {}))
import glob
for f in sorted(glob.glob('/verif/harness/props/*.manifest.json')):
    for e in json.load(open(f)):
        claimed[e["id"]] = dict(cat=e["cat"], tech=e["tech"], text=e["text"], note=e["note"], ref=e["ref"])
na_reasons = extra.get("not_applicable", {})
hooks_commits = extra.get("hook_commits", [])
m = {
 "version": 1,
 "setup_cmd": "./check --setup",
 "hooks": {"guard": "verif", "enable": "go build -tags verif (the harness module replaces github.com/bnb-chain/tss-lib/v2 by /repo)",
           "baseline_off_cmd": "cd /repo && go test -vet=off -count=1 -timeout 25m ./...",
           "source_commits": hooks_commits, "add_only": True},
 "engines": [
   {"name": "engine", "path": "spec/Engine.tla", "serves_properties": ["C07","C08","C09","C04","C05"], "kind_free_text": "TLA+ spec of tss/party.go interpreting six protocol tables; EngineMC.tla (TLC), Engine_Trace.tla (trace validation)"},
   {"name": "harness", "path": "harness/", "serves_properties": [p["id"] for p in props], "kind_free_text": "Go harness: deterministic pump for the six protocols, independent oracles, TLC runner"},
 ],
 "checks": [],
 "notes": "exit 0 = held, 1 = VIOLATION line, 2 = inconclusive (machinery failure, never a verdict). Known findings: known_findings.json.",
 "not_applicable": [],
}
for p in props:
    i = p["id"]
    if i in claimed:
        c = claimed[i]
        m["checks"].append({
          "property_id": i, "quick_cmd": f"./check {i} --tier quick", "thorough_cmd": f"./check {i} --tier thorough",
          "evidence_file": f"/verif/evidence/{i}.json", "replay_cmd_template": f"./check {i} --replay {{path}}",
          "engine": c.get("engine","harness"),
          "level_claimed": {"category": c["cat"], "text": c["text"], "design_ref": c["ref"]},
          "level_note": c["note"], "technique": c["tech"]})
    else:
        m["not_applicable"].append({"property_id": i, "reason": na_reasons.get(i, "check not built yet in this revision (planned per DESIGN.md §6); nothing is claimed")})
json.dump(m, open('/verif/MANIFEST.json','w'), indent=1)
print("claimed:", [c["property_id"] for c in m["checks"]])
