#!/usr/bin/env python3
"""Regenerates MANIFEST.json from the table below (keeps it valid at all times)."""
import json, subprocess
claimed = {
 "C07": dict(cat="model_checking", tech="TLA+ engine spec (EngineMC.tla) model-checked by TLC + trace validation of real runs (Engine_Trace.tla) + cross-schedule comparison",
   text="TLC explores every interleaving of Start/Deliver/duplicate/flipped deliveries of the party round engine for small committees of all six protocols (no stuck state, one result, schedule-independent send set); the same spec validates, line by line, traces of real runs under directed and seeded-random schedules (FIFO, LIFO, starvation, future-first, duplicates, pre-Start), and the harness compares sent-message multisets across schedules and applies the C01-C04 result oracles.",
   note="sequential pump (one Update at a time); protocol tables transcribed in spec/Protocols.tla; TLC/JVM trusted", ref="§4.1, §6 C07"),
 "C08": dict(cat="model_checking", tech="trace validation against Engine_Trace.tla after every single call + TLC model checking of WaitingExact/SendDiscipline/FlipInert",
   text="Every public call of every real run (all six protocols, all strategies incl. flipped broadcast flags) is logged with round number, WaitingFor set, emitted messages with routing and fan-out, result count, wire round-trip and secret-scan booleans; TLC must explain each line by the Engine action and the post-state must be equal; WaitingExact is evaluated after every delivery. The same properties are model-checked on the design.",
   note="round/routing tables in spec/Protocols.tla are the reference; secrets scanned are the byte encodings of long-term secrets >= 120 bits", ref="§4.1, §6 C08"),
}
not_yet = {}
props = [json.loads(l) for l in open('/verif/properties.jsonl')]
extra = json.load(open('/verif/manifest_extra.json')) if __import__('os').path.exists('/verif/manifest_extra.json') else {}
claimed.update(extra.get("claimed", {}))
na_reasons = extra.get("not_applicable", {})
hooks_commits = extra.get("hook_commits", [])
m = {
 "version": 1,
 "setup_cmd": "./check --setup",
 "hooks": {"guard": "verif", "enable": "go build -tags verif (the harness module replaces github.com/bnb-chain/tss-lib/v2 by /repo)",
           "baseline_off_cmd": "cd /repo && go test -vet=off -count=1 -timeout 25m ./...",
           "source_commits": hooks_commits, "add_only": True},
 "engines": [
   {"name": "engine", "path": "spec/Engine.tla", "serves_properties": ["C07","C08","C09","C04","C05"], "kind_free_text": "TLA+ spec of tss/party.go interpreting six protocol tables; EngineMC.tla (TLC), Engine_Trace.tla (trace validation)"},
   {"name": "harness", "path": "harness/", "serves_properties": [p["id"] for p in props], "kind_free_text": "Go harness: deterministic pump for the six protocols, independent oracles, TLC runner"},
 ],
 "checks": [],
 "notes": "exit 0 = held, 1 = VIOLATION line, 2 = inconclusive (machinery failure, never a verdict). Known findings: known_findings.json.",
 "not_applicable": [],
}
for p in props:
    i = p["id"]
    if i in claimed:
        c = claimed[i]
        m["checks"].append({
          "property_id": i, "quick_cmd": f"./check {i} --tier quick", "thorough_cmd": f"./check {i} --tier thorough",
          "evidence_file": f"/verif/evidence/{i}.json", "replay_cmd_template": f"./check {i} --replay {{path}}",
          "engine": c.get("engine","harness"),
          "level_claimed": {"category": c["cat"], "text": c["text"], "design_ref": c["ref"]},
          "level_note": c["note"], "technique": c["tech"]})
    else:
        m["not_applicable"].append({"property_id": i, "reason": na_reasons.get(i, "check not built yet in this revision (planned per DESIGN.md §6); nothing is claimed")})
json.dump(m, open('/verif/MANIFEST.json','w'), indent=1)
print("claimed:", [c["property_id"] for c in m["checks"]])
